(* C18 — Public functions leave their arguments intact and are repeatable.
   Only statements here.  Model: model/Alias.v (buffer language, semantics,
   executable checker `safe`); proofs: proofs/AliasSound.v, proofs/AliasPublic.v;
   programs: gen/AliasProgs.v, regenerated from /repo's sources on every run by
   tools/translate/alias_prog.py; exception lists: gen/AliasExceptions.v,
   regenerated from KNOWN_FINDINGS.json.

   What is a theorem: every execution of the abstract program of a public
   callable leaves the version of every argument buffer unchanged and returns
   no buffer held by a module-level cache (clauses 1 and 3 of the property, for
   the translated callables and under the trusted translation / numpy
   summaries).  Repeatability (clause 2) and reads of uninitialised memory are
   only checked dynamically (tools/props/C18.py). *)
From Coq Require Import List String Bool.
From PA Require Import model.Alias proofs.AliasSound gen.AliasProgs gen.AliasExceptions proofs.AliasPublic.
Import ListNotations.
Open Scope string_scope.

(* Soundness of the checker, for all programs and all executions. *)
Theorem C18_safe_sound : forall p, safe p = true ->
  forall st st', init_ok p st -> exec (body p) st st' ->
  (forall b, arg_buffer p st b -> ver st' b = ver st b) /\
  (forall b, In b (rets st') -> cached st' b = false).
Proof. exact safe_sound. Qed.
Print Assumptions C18_safe_sound.

(* The checker accepts the program generated for every public callable, apart
   from the exceptions listed by name. *)
Theorem C18_safe_all_public : forallb public_ok public_functions = true.
Proof. exact safe_all_public. Qed.
Print Assumptions C18_safe_all_public.

(* Summaries used at the call sites of library functions cover the callees' own programs. *)
Theorem C18_calls_consistent : calls_consistent callee_functions = true.
Proof. exact calls_consistent_all. Qed.
Print Assumptions C18_calls_consistent.

(* No public callable (outside the recorded findings) modifies an argument buffer, except
   possibly at the argument positions named in unproved_args for that callable
   (org st b = LArg i: b is the buffer passed as the i-th parameter). *)
Theorem C18_public_args_intact : forall f p, In (f, p) public_functions -> args_exempt f = false ->
  forall st st', init_ok p st -> exec (body p) st st' ->
  forall b, arg_buffer p st b ->
  (forall i, org st b = LArg i -> existsb (Nat.eqb i) (allowed_args unproved_args f) = false) ->
  ver st' b = ver st b.
Proof. exact public_args_intact. Qed.
Print Assumptions C18_public_args_intact.

(* ... nor returns a buffer that a module-level cache holds, nor one of the argument buffers
   themselves (except at the positions named in returned_args_allowed for that callable). *)
Theorem C18_public_results_not_cached : forall f p, In (f, p) public_functions -> ret_exempt f = false ->
  forall st st', init_ok p st -> exec (body p) st st' ->
  forall b, In b (rets st') ->
  cached st' b = false /\
  (forall i, org st' b = LArg i -> existsb (Nat.eqb i) (allowed_args returned_args_allowed f) = true).
Proof. exact public_results_not_cached. Qed.
Print Assumptions C18_public_results_not_cached.

(* Reused objects: every translated public method (self = parameter 0, the object as one region)
   leaves its other arguments intact and returns nothing that is held by a module cache or that
   is (part of) the object itself - apart from the methods named in method_exempt, each of which
   the checker really rejects. *)
Theorem C18_public_methods_safe : forall f p, In (f, p) public_methods -> inb f method_exempt = false ->
  forall st st', init_ok p st -> exec (body p) st st' ->
  (forall b, arg_buffer p st b -> (forall i, org st b = LArg i -> i <> 0) -> ver st' b = ver st b) /\
  (forall b, In b (rets st') -> cached st' b = false /\ org st' b <> LArg 0).
Proof. exact public_methods_safe. Qed.
Print Assumptions C18_public_methods_safe.

Theorem C18_method_exceptions_refuted :
  forallb (fun f => match lookup public_methods f with Some p => negb (safe_method p) | None => false end)
          method_exempt = true.
Proof. exact method_exceptions_refuted. Qed.
Print Assumptions C18_method_exceptions_refuted.

(* Each named exception is really rejected by the checker (for the recorded
   findings this is the refutation of the clause on the generated program). *)
Theorem C18_exceptions_refuted :
  forallb rejected_args (known_arg_writers ++ map fst unproved_args) = true /\
  forallb rejected_ret (known_cache_returners ++ cache_accessors) = true /\
  forallb (fun f => match lookup public_functions f with Some p => negb (safe_ret_except [] p) | None => false end)
          (map fst returned_args_allowed) = true.
Proof. exact exceptions_refuted. Qed.
Print Assumptions C18_exceptions_refuted.

(* The hypotheses are satisfiable and the semantics does observe both kinds of
   violation: `def f(x): x += 1` changes its argument, `def f(x): return _cache`
   returns a cached buffer; the checker rejects both. *)
Example C18_write_param_refuted : safe_args p_write = false /\
  exists st st', init_ok p_write st /\ exec (body p_write) st st' /\
                 exists b, arg_buffer p_write st b /\ ver st' b <> ver st b.
Proof. exact write_param_refuted. Qed.

Example C18_return_cache_refuted : safe_ret p_cache = false /\
  exists st st', init_ok p_cache st /\ exec (body p_cache) st st' /\
                 exists b, In b (rets st') /\ cached st' b = true.
Proof. exact return_cache_refuted. Qed.
