(* C17 — documented equivalences between methods and options.
   Only statements; proofs in proofs/MxAlgebra.v, proofs/LinOpsProofs.v,
   proofs/OnionDaun0.v.  The daun_*, rbasex_*, dasch_*, basex_* terms are
   GENERATED from the current sources of /repo (gen/MatrixExpr.v): each is the
   matrix expression the named call evaluates for the named option set
   (daun_<direction>_deg<d>_<reg>_<dr1|dr>: reg none = None, int0 = 0,
   float0 = 0.0 (the default), diff0 = ('diff', 0), L20 = ('L2', 0),
   L2c0 = ('L2c', 0), diff/L2/L2c = (type, s) with s <> 0, num = s,
   nonneg = 'nonneg').  inv / solve_triangular / nnls by specification. *)
From mathcomp Require Import all_ssreflect all_algebra.
From Coq Require Reals.
From PA Require Import base.MxNp gen.MatrixExpr model.LinOps proofs.MxAlgebra proofs.LinOpsProofs proofs.OnionDaun0.
Import GRing.Theory Num.Theory.
Local Open Scope ring_scope.

(* ---- daun with default options == onion_peeling ------------------------------- *)
(* default call daun_transform(X) = reg 0.0, degree 0, dr 1.0, inverse.  B is the
   degree-0 basis, W the onion-peeling weight matrix; onion_peeling applies
   inv(W) through tensordot. *)
Theorem C17_daun_default_eq_onion_peeling :
  forall (F : fieldType) (n h : nat) (B W : 'M[F]_n) (X : 'M[F]_(h, n)),
  is_trig_mx B -> W = B^T ->
  daun_inverse_deg0_float0_dr1 B X = dasch_onion_peeling_dr1 W X.
Proof. exact daun_default_eq_onion_peeling. Qed.
Print Assumptions C17_daun_default_eq_onion_peeling.

(* the hypothesis W = B^T, entry by entry, for the closed forms of
   abel/dasch.py:273-280 and abel/daun.py:334-340 (hand-transcribed, see
   proofs/OnionDaun0.v) over the real numbers, all indices *)
Theorem C17_onion_W_eq_daun0 : forall i j : nat, onion_W i j = daun0_B j i.
Proof. exact onion_W_eq_daun0. Qed.
Print Assumptions C17_onion_W_eq_daun0.

(* ---- zero regularisation strength == no regularisation: daun ------------------- *)
(* every spelling of strength 0 takes the code path of reg=None (all degrees) *)
Theorem C17_daun_zero_strength_same_path :
  forall (F : fieldType) (n h : nat) (B : 'M[F]_n) (X : 'M[F]_(h, n)),
  [/\ daun_inverse_deg0_int0_dr1 B X = daun_inverse_deg0_none_dr1 B X,
      daun_inverse_deg0_float0_dr1 B X = daun_inverse_deg0_none_dr1 B X,
      daun_inverse_deg0_diff0_dr1 B X = daun_inverse_deg0_none_dr1 B X,
      daun_inverse_deg0_L20_dr1 B X = daun_inverse_deg0_none_dr1 B X &
      daun_inverse_deg0_L2c0_dr1 B X = daun_inverse_deg0_none_dr1 B X] /\
  [/\ daun_inverse_deg1_int0_dr1 B X = daun_inverse_deg1_none_dr1 B X,
      daun_inverse_deg1_float0_dr1 B X = daun_inverse_deg1_none_dr1 B X,
      daun_inverse_deg1_diff0_dr1 B X = daun_inverse_deg1_none_dr1 B X,
      daun_inverse_deg1_L20_dr1 B X = daun_inverse_deg1_none_dr1 B X &
      daun_inverse_deg1_L2c0_dr1 B X = daun_inverse_deg1_none_dr1 B X] /\
  [/\ daun_inverse_deg2_int0_dr1 B X = daun_inverse_deg2_none_dr1 B X,
      daun_inverse_deg2_float0_dr1 B X = daun_inverse_deg2_none_dr1 B X,
      daun_inverse_deg2_diff0_dr1 B X = daun_inverse_deg2_none_dr1 B X,
      daun_inverse_deg2_L20_dr1 B X = daun_inverse_deg2_none_dr1 B X &
      daun_inverse_deg2_L2c0_dr1 B X = daun_inverse_deg2_none_dr1 B X] /\
  [/\ daun_inverse_deg3_int0_dr1 B X = daun_inverse_deg3_none_dr1 B X,
      daun_inverse_deg3_float0_dr1 B X = daun_inverse_deg3_none_dr1 B X,
      daun_inverse_deg3_diff0_dr1 B X = daun_inverse_deg3_none_dr1 B X,
      daun_inverse_deg3_L20_dr1 B X = daun_inverse_deg3_none_dr1 B X &
      daun_inverse_deg3_L2c0_dr1 B X = daun_inverse_deg3_none_dr1 B X].
Proof. exact daun_zero_strength_same_path. Qed.
Print Assumptions C17_daun_zero_strength_same_path.

(* and the Tikhonov expressions themselves reduce to the plain inverse at
   strength 0 (any Tikhonov matrix L) *)
Theorem C17_tikhonov_zero_daun :
  forall (F : fieldType) (n : nat) (B : 'M[F]_n), B \in unitmx ->
  (forall L : 'M[F]_n, daun_tikhonov_diff B L 0 = invmx B) /\
  daun_tikhonov_L2 B 0 = invmx B /\
  ((0 < n)%N -> daun_tikhonov_L2c B 0 = invmx B).
Proof.
exact (fun F n B uB => conj (tikhonov_zero_daun_diff uB)
                        (conj (tikhonov_zero_daun_L2 uB) (tikhonov_zero_daun_L2c uB))).
Qed.
Print Assumptions C17_tikhonov_zero_daun.

Theorem C17_daun_reg_zero_eq_none :
  forall (F : fieldType) (n : nat) (B : 'M[F]_n), B \in unitmx ->
  forall (h : nat) (X : 'M[F]_(h, n)) (L : 'M[F]_n), is_trig_mx B ->
  daun_inverse_deg0_diff_dr1 B L 0 X = daun_inverse_deg0_none_dr1 B X /\
  daun_inverse_deg0_L2_dr1 B 0 X = daun_inverse_deg0_none_dr1 B X /\
  daun_inverse_deg0_num_dr1 B L 0 X = daun_inverse_deg0_none_dr1 B X.
Proof. exact daun_reg_zero_eq_none. Qed.
Print Assumptions C17_daun_reg_zero_eq_none.

Theorem C17_daun_L2c_zero_eq_none :
  forall (F : fieldType) (n : nat) (B : 'M[F]_n), B \in unitmx ->
  forall (h : nat) (X : 'M[F]_(h, n)), is_trig_mx B -> (0 < n)%N ->
  daun_inverse_deg0_L2c_dr1 B 0 X = daun_inverse_deg0_none_dr1 B X.
Proof. exact daun_L2c_zero_eq_none. Qed.
Print Assumptions C17_daun_L2c_zero_eq_none.

(* ---- zero strength == none: rbasex (here ('L2', 0) really evaluates the
   Tikhonov expression) ----------------------------------------------------------- *)
Theorem C17_tikhonov_zero_rbasex :
  forall (F : fieldType) (Rmax : nat) (P : 'M[F]_(Rmax.+1)), is_trig_mx P -> P \in unitmx ->
  rbasex_matrix_inverse_L2 P 0 = rbasex_matrix_inverse_none P /\
  (forall G : 'M[F]_(Rmax.+1), rbasex_matrix_inverse_diff P G 0 = rbasex_matrix_inverse_none P) /\
  (forall (G : 'M[F]_(Rmax.+1)) (p : 'rV[F]_(Rmax.+1)),
     rbasex_apply_inverse_L2 P 0 p = rbasex_apply_inverse_none P p /\
     rbasex_apply_inverse_diff P G 0 p = rbasex_apply_inverse_none P p).
Proof.
exact (fun F Rmax P tP uP => conj (rbasex_tikhonov_zero_L2 tP uP)
         (conj (rbasex_tikhonov_zero_diff tP uP) (rbasex_apply_tikhonov_zero tP uP))).
Qed.
Print Assumptions C17_tikhonov_zero_rbasex.

(* basex: the regularised branch of _get_A at reg = 0 is the exact branch *)
Theorem C17_basex_reg_zero :
  forall (F : fieldType) (n : nat) (M Mc : 'M[F]_n), M \in unitmx -> Mc \in unitmx ->
  basex_A_forward_reg M Mc 0 = basex_A_forward_exact M Mc /\
  basex_A_inverse_reg M Mc 0 = basex_A_inverse_exact M Mc.
Proof. exact basex_reg_zero. Qed.
Print Assumptions C17_basex_reg_zero.

(* ---- non-negative solvers == unconstrained solution when that is feasible ----- *)
(* solver by specification (model/LinOps.v): any solver returning a minimiser of
   ||A x - b|| over x >= 0; A of full column rank.  Covers daun 'nonneg'
   (A = B^T) and rbasex 'pos' (A = the cos/sin block matrix). *)
Theorem C17_nonneg_eq_unconstrained :
  forall (R : realFieldType) (m n : nat) (A : 'M[R]_(m, n))
         (solver : 'M[R]_(m, n) -> 'rV[R]_m -> 'rV[R]_n) (b : 'rV[R]_m) (x : 'rV[R]_n),
  (forall b', is_nnls A b' (solver A b')) -> full_rank A ->
  is_lsq A b x -> nonneg x -> solver A b = x.
Proof. exact nonneg_eq_unconstrained. Qed.
Print Assumptions C17_nonneg_eq_unconstrained.

(* the generated daun 'nonneg' expression *)
Theorem C17_daun_nonneg_eq_none :
  forall (R : realFieldType) (n : nat) (B : 'M[R]_n) (nnls : 'M[R]_n -> 'rV[R]_n -> 'rV[R]_n),
  nnls_spec nnls -> B \in unitmx ->
  forall (h : nat) (X : 'M[R]_(h, n)), is_trig_mx B ->
  (forall i j, 0 <= (daun_inverse_deg0_none_dr1 B X) i j) ->
  daun_inverse_deg0_nonneg_dr1 B nnls X = daun_inverse_deg0_none_dr1 B X.
Proof. exact daun_nonneg_eq_none. Qed.
Print Assumptions C17_daun_nonneg_eq_none.

(* the minimiser is unique for full-rank systems, so "the" solution is well defined *)
Theorem C17_nnls_unique :
  forall (R : realFieldType) (m n : nat) (A : 'M[R]_(m, n)) (b : 'rV[R]_m) (x y : 'rV[R]_n),
  full_rank A -> is_nnls A b x -> is_nnls A b y -> x = y.
Proof. exact nnls_unique. Qed.
Print Assumptions C17_nnls_unique.

(* ---- wrappers: the three Dasch entry points evaluate the same expression ------ *)
Theorem C17_dasch_wrappers_same :
  forall (F : fieldType) (n h : nat) (D : 'M[F]_n) (X : 'M[F]_(h, n)) (dr : F),
  dasch_two_point_dr D dr X = dr^-1 *: (X *m D^T) /\
  dasch_three_point_dr D dr X = dr^-1 *: (X *m D^T).
Proof. exact (fun F n h D X dr => conj (erefl _) (erefl _)). Qed.
Print Assumptions C17_dasch_wrappers_same.

(* ---- every input shape: a 1-D profile and a one-row 2-D array evaluate the same
   expression as a row of a many-row image (generated separately for each shape) ---- *)
Theorem C17_single_row_same_expression :
  forall (F : fieldType) (n : nat) (B D W : 'M[F]_n) (dr : F) (x : 'rV[F]_n),
  ([/\ dasch_two_point_onerow_dr D dr x = dasch_two_point_dr D dr x,
       dasch_two_point_1d_dr D dr x = dasch_two_point_dr D dr x,
       dasch_three_point_onerow_dr D dr x = dasch_three_point_dr D dr x &
       dasch_three_point_1d_dr D dr x = dasch_three_point_dr D dr x] /\
   (dasch_onion_peeling_onerow_dr W dr x = dasch_onion_peeling_dr W dr x /\
    dasch_onion_peeling_1d_dr W dr x = dasch_onion_peeling_dr W dr x)) /\
  ([/\ daun_forward_deg0_none_onerow_dr B dr x = daun_forward_deg0_none_dr B dr x,
       daun_forward_deg0_none_1d_dr B dr x = daun_forward_deg0_none_dr B dr x,
       daun_inverse_deg0_none_onerow_dr B dr x = daun_inverse_deg0_none_dr B dr x &
       daun_inverse_deg0_none_1d_dr B dr x = daun_inverse_deg0_none_dr B dr x] /\
   [/\ daun_forward_deg3_none_onerow_dr B dr x = daun_forward_deg3_none_dr B dr x,
       daun_forward_deg3_none_1d_dr B dr x = daun_forward_deg3_none_dr B dr x,
       daun_inverse_deg3_none_onerow_dr B dr x = daun_inverse_deg3_none_dr B dr x &
       daun_inverse_deg3_none_1d_dr B dr x = daun_inverse_deg3_none_dr B dr x]).
Proof. exact (fun F n B D W dr x => conj (dasch_single_row D W dr x) (daun_single_row B dr x)). Qed.
Print Assumptions C17_single_row_same_expression.

Theorem C17_dasch_row_of_image :
  forall (F : fieldType) (n : nat) (D : 'M[F]_n) (dr : F) (h : nat) (X : 'M[F]_(h, n)) (i : 'I_h),
  row i (dasch_two_point_dr D dr X) = dasch_two_point_1d_dr D dr (row i X) /\
  row i (dasch_three_point_dr D dr X) = dasch_three_point_1d_dr D dr (row i X).
Proof. exact dasch_row_of_image. Qed.
Print Assumptions C17_dasch_row_of_image.

(* daun default == onion_peeling for every pixel size and every input shape *)
Theorem C17_daun_default_eq_onion_peeling_all_shapes :
  forall (F : fieldType) (n : nat) (B W : 'M[F]_n) (dr : F) (x : 'rV[F]_n) (h : nat) (X : 'M[F]_(h, n)),
  is_trig_mx B -> W = B^T ->
  [/\ daun_inverse_deg0_float0_dr B dr X = dasch_onion_peeling_dr W dr X,
      daun_inverse_deg0_none_1d_dr B dr x = dasch_onion_peeling_1d_dr W dr x &
      daun_inverse_deg0_none_onerow_dr B dr x = dasch_onion_peeling_onerow_dr W dr x].
Proof. exact daun_default_eq_onion_peeling_shapes. Qed.
Print Assumptions C17_daun_default_eq_onion_peeling_all_shapes.

(* hypotheses are satisfiable *)
Example C17_hypotheses_satisfiable :
  is_trig_mx (1%:M : 'M[rat]_3) /\ ((1%:M : 'M[rat]_3) \in unitmx) /\ (1%:M : 'M[rat]_3) = (1%:M)^T.
Proof. exact (conj (scalar_mx_is_trig 3 (1 : rat)) (conj (unitmx1 _ 3) (esym (trmx1 _ 3)))). Qed.
