(* C10 — Polynomial classes return exact functions and exact Abel transforms.
   Only statements here.  Models: model/Poly.v (Polynomial.__init__ coefficient
   preparation, limits, Horner; polynomial.py:115-164, 209-216), model/AbelPoly.v
   (the one-sided integrals a(k), .abel; 166-207, 218-226), model/Angular.v
   (530-687).  Proofs: proofs/PolyRing.v, AbelPolyAlg.v, AbelPolyInt.v, PolyTop.v,
   PolyPiecewise.v, AbelPolyEval.v, AngularProofs.v, AngularR.v.

   Abel f Rm x = 2 * RInt (fun y => f (sqrt (x*x+y*y))) 0 (sqrt (Rm*Rm - x*x))
   polyfun rmin rmax c r0 s r = sum_k c_k ((r-r0)/s)^k on [max(rmin,0), rmax), else 0
   poly_funcR / poly_abelR = .func / .abel of Polynomial(r, rmin, rmax, c, r0, s, reduced) *)
From Coq Require Import Reals List Arith Bool ZArith QArith Qreals Ring Lia Lra.
From Coquelicot Require Import Coquelicot.
From PA Require Import model.Poly model.AbelPoly model.Angular model.SPoly proofs.SPolyProofs proofs.SPolyPiecewise proofs.PolyQ2R
  proofs.PolyRing proofs.AbelPolyAlg proofs.AbelPolyInt proofs.PolyTop proofs.PolyPiecewise
  proofs.AbelPolyEval proofs.AngularProofs proofs.AngularR proofs.ApproxGaussianTail.
Import ListNotations.
Open Scope R_scope.

(* The Pascal/Toeplitz-transformed coefficients (shift by r0) and the
   power-scaled coefficients (stretch) define the same function of r: any
   commutative ring, any degree. *)
Theorem C10_shift_stretch_poly :
  forall (A : Type) (zero one : A) (add mul sub : A -> A -> A) (opp : A -> A),
  ring_theory zero one add mul sub opp (@eq A) ->
  forall (r0 p q : A) (c : list A) (x : A),
    peval A zero add mul (shift A zero one add mul opp r0 c) x = peval A zero add mul c (sub x r0) /\
    peval A zero add mul (scale_pow A mul p q c) x = mul p (peval A zero add mul c (mul q x)).
Proof. intros; split; [apply (shift_eval A zero one add mul sub opp H) | apply (scale_pow_eval A zero one add mul sub opp H)]. Qed.
Print Assumptions C10_shift_stretch_poly.

Theorem C10_stretch_real : forall s c x, s <> 0 ->
  pevalR (stretch R 1 Rmult Rdiv s c) x = pevalR c (x / s).
Proof. exact stretch_eval. Qed.
Print Assumptions C10_stretch_real.

(* .func equals the polynomial on [r_min, r_max) and zero outside: any ascending
   non-negative grid (not necessarily uniform), any coefficients, shift,
   stretch, reduced on/off, negative or beyond-grid limits. *)
Theorem C10_func_support :
  forall (r : list R) (rmin rmax : R) (c : list R) (r0 s : R) (reduced : bool),
  ascending r -> (forall j, (j < length r)%nat -> 0 <= nth j r 0) -> s <> 0 ->
  forall i, (i < length r)%nat ->
  nth i (poly_funcR r rmin rmax c r0 s reduced) 0 = polyfun rmin rmax c r0 s (nth i r 0).
Proof. exact poly_func_spec. Qed.
Print Assumptions C10_func_support.

(* AA k x is an antiderivative of sqrt(x^2+y^2)^k in y, for every k (the
   recursion of the code in steps of 2 with the logarithmic closed form for odd k) *)
Theorem C10_a_k_antiderivative : forall k x y, 0 < x ->
  is_derive (fun y => AA k x y) y (sqrt (x * x + y * y) ^ k).
Proof. exact AA_deriv. Qed.
Print Assumptions C10_a_k_antiderivative.

Theorem C10_a_k_centre : forall k y, 0 <= y -> AA k 0 y = y ^ S k / INR (S k).
Proof. exact AA_x0. Qed.
Print Assumptions C10_a_k_centre.

(* the code's a(k) (C[] recursion, Horner in x^2, logarithm for odd k) is the
   difference of that antiderivative between the integration limits *)
Theorem C10_a_code_eq_A : forall k x rmin rmax, 0 <= x <= rmax -> 0 <= rmin ->
  a_code k x rmin rmax =
  AA k x (sqrt (rmax * rmax - x * x)) - AA k x (sqrt (rmin * rmin - x * x)).
Proof. exact a_code_AA. Qed.
Print Assumptions C10_a_code_eq_A.

(* .abel is the Abel transform of the represented function at every grid point *)
Theorem C10_poly_abel :
  forall (r : list R) (rmin rmax : R) (c : list R) (r0 s : R) (reduced : bool),
  ascending r -> (forall j, (j < length r)%nat -> 0 <= nth j r 0) -> s <> 0 ->
  forall Rm, Rmax rmin 0 <= rmax <= Rm ->
  forall i, (i < length r)%nat ->
  nth i (poly_abelR r rmin rmax c r0 s reduced) 0 = Abel (polyfun rmin rmax c r0 s) Rm (nth i r 0).
Proof. exact poly_abel_spec. Qed.
Print Assumptions C10_poly_abel.

(* sums of pieces (overlapping, gapped, any degrees) *)
Theorem C10_piecewise_sum :
  forall (r : list R) (Rm : R), ascending r -> (forall j, (j < length r)%nat -> 0 <= nth j r 0) ->
  forall ps i, List.Forall (piece_ok Rm) ps -> (i < length r)%nat ->
  nth i (pw_func r ps) 0 = pw_fun ps (nth i r 0) /\
  nth i (pw_abel r ps) 0 = Abel (pw_fun ps) Rm (nth i r 0).
Proof. intros; split; [apply (piecewise_func r Rm) | apply (piecewise_abel r Rm)]; auto. Qed.
Print Assumptions C10_piecewise_sum.

(* multiplying func and abel by a number is the pair of the multiplied function *)
Theorem C10_scalar_mul : forall F k Rm x,
  ex_RInt (los F x) 0 (sqrt (Rm * Rm - x * x)) ->
  k * Abel F Rm x = Abel (fun t => k * F t) Rm x.
Proof. exact scalar_mul_abel. Qed.
Print Assumptions C10_scalar_mul.

(* every scalar operator (`*`, `*=`, `num *`, `/`, `/=`; PiecewisePolynomial scales its
   pieces too): k * object is the pair of k * f, for the whole object and for every
   piece; division by a is k = 1/a (a <> 0); `/= a; *= a` is the identity *)
Theorem C10_scalar_whole :
  forall (r : list R) (Rm : R), ascending r -> (forall j, (j < length r)%nat -> 0 <= nth j r 0) ->
  forall k ps i, List.Forall (piece_ok Rm) ps -> (i < length r)%nat ->
  nth i (vscaleR k (pw_func r ps)) 0 = k * pw_fun ps (nth i r 0) /\
  nth i (vscaleR k (pw_abel r ps)) 0 = Abel (fun t => k * pw_fun ps t) Rm (nth i r 0).
Proof. exact scaled_whole. Qed.
Print Assumptions C10_scalar_whole.

Theorem C10_scalar_pieces :
  forall (r : list R) (Rm : R), ascending r -> (forall j, (j < length r)%nat -> 0 <= nth j r 0) ->
  forall k ps j i, List.Forall (piece_ok Rm) ps -> (j < length ps)%nat -> (i < length r)%nat ->
  let p := nth j ps {| q_rmin := 0; q_rmax := 0; q_c := []; q_r0 := 0; q_s := 1; q_red := false |} in
  let F := polyfun (q_rmin p) (q_rmax p) (q_c p) (q_r0 p) (q_s p) in
  nth i (fst (nth j (scaled_pieces k r ps) ([], []))) 0 = k * F (nth i r 0) /\
  nth i (snd (nth j (scaled_pieces k r ps) ([], []))) 0 = Abel (fun t => k * F t) Rm (nth i r 0).
Proof. exact scaled_piece. Qed.
Print Assumptions C10_scalar_pieces.

Theorem C10_scalar_div : forall a l i, a <> 0 ->
  nth i (vscaleR (1 / a) l) 0 = nth i l 0 / a /\ vscaleR a (vscaleR (1 / a) l) = l.
Proof. intros; split; [apply vscale_div | apply vscale_roundtrip]; auto. Qed.
Print Assumptions C10_scalar_div.

(* ---- SPolynomial (bivariate r^m cos^n; model/SPoly.v, proofs/SPolyProofs.v) ----
   cols[n][m] = c[m, n]; sfun cols R C = sum c[m,n] R^m C^n;
   spfun ... R C = sfun cols ((R - r0)/s) C on [max(r_min,0), r_max), else 0;
   Abel2 F Rm r cs = 2 * RInt (fun y => F (sqrt(r^2+y^2)) (r cs / sqrt(r^2+y^2))) 0 (sqrt(Rm^2 - r^2)) *)

(* the recursive antiderivatives F(k, lim): d/dy of the spec family is (r/R)^k for every
   k >= 0 (recursion upwards from k = 0, 1, 2) and (R/r)^j for every j >= 0 (k = -j) *)
Theorem C10_spoly_F_antiderivative : forall k r y, 0 < r ->
  is_derive (fun y => FzG k r y (sqrt (r * r + y * y))) y (fz k (r / sqrt (r * r + y * y))).
Proof. exact FzG_deriv. Qed.
Print Assumptions C10_spoly_F_antiderivative.

(* the code's F (with arccos) is that family at the integration limits *)
Theorem C10_spoly_F_code : forall k r rho, 0 < r <= rho ->
  Fcode k r (sqrt (rho * rho - r * r)) rho = FzG k r (sqrt (rho * rho - r * r)) rho.
Proof. exact Fcode_eq. Qed.
Print Assumptions C10_spoly_F_code.

(* per-column stretch and Pascal/Toeplitz shift define the same function of (R, cos) *)
Theorem C10_spoly_prepare : forall cols r0 s rho c, s <> 0 ->
  sfun (sp_prepareR cols r0 s) rho c = sfun cols ((rho - r0) / s) c.
Proof. exact sfun_prepare. Qed.
Print Assumptions C10_spoly_prepare.

(* .abel of SPolynomial is the Abel transform at every pixel: 0 < r < r_max, r >= r_max, r = 0 *)
Theorem C10_spoly_abel : forall cols r0 s rmin rmax Rm r cs,
  s <> 0 -> 0 < r < rmax -> Rmax rmin 0 <= rmax <= Rm ->
  sp_abel_pt (sp_prepareR cols r0 s) r cs (Rmax rmin 0) rmax = Abel2 (spfun cols r0 s rmin rmax) Rm r cs.
Proof. exact spoly_abel. Qed.
Print Assumptions C10_spoly_abel.

Theorem C10_spoly_abel_outside : forall cols r0 s rmin rmax Rm r cs, 0 <= rmax <= r ->
  Abel2 (spfun cols r0 s rmin rmax) Rm r cs = 0.
Proof. exact spoly_abel_outside. Qed.
Print Assumptions C10_spoly_abel_outside.

Theorem C10_spoly_abel_r0 : forall cols r0 s rmin rmax Rm cs,
  s <> 0 -> 0 < rmax -> Rmax rmin 0 <= rmax <= Rm ->
  sp_abel_r0 (hd [] (sp_prepareR cols r0 s)) 0 (Rmax rmin 0) rmax = Abel2 (spfun cols r0 s rmin rmax) Rm 0 cs.
Proof. exact spoly_abel_r0. Qed.
Print Assumptions C10_spoly_abel_r0.

(* the evaluation form run by the correspondence check (arctangent form, decisions in Q) is the model *)
Theorem C10_spoly_eval_sound : forall cols r cs rmin rmax, 0 < Q2R r <= Q2R rmax ->
  sp_abelQ_at cols r cs rmin rmax =
  sp_abel_pt (map (map Q2R) cols) (Q2R r) (Q2R cs) (Q2R rmin) (Q2R rmax).
Proof. exact sp_abelQ_at_correct. Qed.
Print Assumptions C10_spoly_eval_sound.

(* sums of SPolynomial pieces (PiecewiseSPolynomial): abel = Abel2 of the sum of the pieces *)
Theorem C10_piecewise_s_abel : forall ps Rm r cs, 0 < r -> List.Forall (spiece_ok Rm) ps ->
  spw_abel ps r cs = Abel2 (spw_fun ps) Rm r cs.
Proof. exact piecewise_s_abel. Qed.
Print Assumptions C10_piecewise_s_abel.

(* bspline: a PPoly piece (descending powers of x - x_i, Horner as scipy evaluates it) is the range
   (x_i, x_{i+1}, reversed coefficients, r_0 = x_i) — bookkeeping only; PPoly.from_spline is trusted *)
Theorem C10_bspline_conversion_partial : forall cdesc xi x,
  ppoly_eval cdesc xi x = pevalR (rev cdesc) ((x - xi) / 1).
Proof. exact bspline_piece. Qed.
Print Assumptions C10_bspline_conversion_partial.

Theorem C10_bspline_range : forall cdesc xi xi1 r,
  polyfun xi xi1 (rev cdesc) xi 1 r =
  if Rle_dec (Rmax xi 0) r then if Rlt_dec r xi1 then ppoly_eval cdesc xi r else 0 else 0.
Proof. exact bspline_range. Qed.
Print Assumptions C10_bspline_range.

(* the executed Q instance of the model is the R instance of the theorems on rational inputs:
   Q2R commutes with prepare, .func and the .abel evaluation form (no parametricity assumption left) *)
Theorem C10_model_Q2R_func : forall r rmin rmax c r0 s red, ~ (s == 0)%Q ->
  map Q2R (poly_funcQ r rmin rmax c r0 s red) =
  poly_funcR (map Q2R r) (Q2R rmin) (Q2R rmax) (map Q2R c) (Q2R r0) (Q2R s) red.
Proof. exact poly_func_Q2R. Qed.
Print Assumptions C10_model_Q2R_func.

Theorem C10_model_Q2R_abel : forall r rmin rmax c r0 s red i, ~ (s == 0)%Q ->
  (forall j, (j < length r)%nat -> 0 <= nth j (map Q2R r) 0) -> (i < length r)%nat ->
  poly_abelQ_at r rmin rmax c r0 s red i =
  nth i (poly_abelR (map Q2R r) (Q2R rmin) (Q2R rmax) (map Q2R c) (Q2R r0) (Q2R s) red) 0.
Proof. exact poly_abel_Q2R. Qed.
Print Assumptions C10_model_Q2R_abel.

(* the rational evaluation form run by the correspondence check is the model *)
Theorem C10_abel_eval_sound : forall c sc x rmin rmax,
  0 <= Q2R x -> 0 <= Q2R rmin ->
  abel_of_data (abel_dataQ c sc x rmin rmax) =
  abel_pt (map Q2R c) (Q2R sc) (Q2R x) (Q2R rmin) (Q2R rmax).
Proof. exact abel_of_data_correct. Qed.
Print Assumptions C10_abel_eval_sound.

(* ---- Angular ---- *)
Theorem C10_angular_add_mul :
  forall (A : Type) (zero one : A) (add mul sub : A -> A -> A) (opp : A -> A),
  ring_theory zero one add mul sub opp (@eq A) ->
  forall (a b : list A) (k x : A),
    peval A zero add mul (padd A add a b) x = add (peval A zero add mul a x) (peval A zero add mul b x) /\
    peval A zero add mul (pmul A zero add mul a b) x = mul (peval A zero add mul a x) (peval A zero add mul b x) /\
    peval A zero add mul (ascal A mul k a) x = mul k (peval A zero add mul a x) /\
    peval A zero add mul (asub_direct A sub opp a b) x = sub (peval A zero add mul a x) (peval A zero add mul b x).
Proof.
  intros; repeat split;
  [apply (eval_padd A zero one add mul sub opp H) | apply (eval_pmul A zero one add mul sub opp H)
  | apply (eval_ascal A zero one add mul sub opp H) | apply (eval_asub_direct A zero one add mul sub opp H)].
Qed.
Print Assumptions C10_angular_add_mul.

Theorem C10_angular_cossin :
  forall (A : Type) (zero one : A) (add mul sub : A -> A -> A) (opp : A -> A),
  ring_theory zero one add mul sub opp (@eq A) ->
  forall (m n : nat) (x : A),
    peval A zero add mul (acos A zero one m) x = pw A one mul x m /\
    peval A zero add mul (acossin A zero one add mul opp m n) x =
      mul (pw A one mul x m) (pw A one mul (sub one (mul x x)) (n / 2)).
Proof.
  intros; split; [apply (eval_acos A zero one add mul sub opp H) | apply (eval_acossin A zero one add mul sub opp H)].
Qed.
Print Assumptions C10_angular_cossin.

(* Angular.__sub__ (self + (-1.0) * other; the translator tools/translate/angular_sub.py
   selects this model, asub_direct, from the source and fails closed on any other
   body): the difference is the evaluation homomorphism, any lengths *)
Theorem C10_angular_sub : forall a b x,
  pevR (asub_direct R Rminus Ropp a b) x = pevR a x - pevR b x.
Proof. exact (eval_asub_direct R 0 1 Rplus Rmult Rminus Ropp RTheory). Qed.
Print Assumptions C10_angular_sub.

(* Legendre series: the coefficient lists satisfy Bonnet's recursion (all n) *)
Theorem C10_angular_legendre : forall c n x,
  pevR (alegendre R 0 1 Rplus Rmult Rminus Rdiv c) x = leg_series 0 c x /\
  pevR (leg R 0 1 Rplus Rmult Rminus Rdiv 0) x = 1 /\
  pevR (leg R 0 1 Rplus Rmult Rminus Rdiv 1) x = x /\
  INR (n + 2) * pevR (leg R 0 1 Rplus Rmult Rminus Rdiv (S (S n))) x =
    INR (2 * n + 3) * x * pevR (leg R 0 1 Rplus Rmult Rminus Rdiv (S n)) x
    - INR (n + 1) * pevR (leg R 0 1 Rplus Rmult Rminus Rdiv n) x.
Proof. intros; repeat split; [apply eval_alegendre | apply leg_0 | apply leg_1 | apply leg_bonnet]. Qed.
Print Assumptions C10_angular_legendre.

(* finite: for n <= 8 the exact coefficients are the tabulated Legendre polynomials *)
Theorem C10_angular_legendre_table :
  forallb (fun n => qlist_eq (legQ n) (nth n leg_table [])) (seq 0 9) = true /\
  forallb (fun n => Qeq_bool (pevalQ (legQ n) 1) 1) (seq 0 9) = true.
Proof. exact (conj leg_table_ok leg_at_one). Qed.
Print Assumptions C10_angular_legendre_table.

(* ---- ApproxGaussian: the per-instance goals (every segment of the ranges the
   implementation returns, 7 tabulated tolerances, and the refutation at
   tol = 0.0187) are in proofs/C10Instances.v; here the general tail lemma ---- *)
Theorem C10_approx_gaussian_tail : forall xN x, 0 <= xN <= Rabs x ->
  exp (- (x * x) / 2) <= exp (- (xN * xN) / 2).
Proof. exact gauss_tail. Qed.
Print Assumptions C10_approx_gaussian_tail.

(* the hypotheses are satisfiable *)
Example C10_ex_grid : ascending [0; 1/2; 2] /\ (forall j, (j < 3)%nat -> 0 <= nth j [0; 1/2; 2] 0).
Proof.
  split.
  - intros i j H. simpl in H. destruct i as [|[|[|i]]]; destruct j as [|[|[|j]]]; simpl; try lia; lra.
  - intros j H. destruct j as [|[|[|j]]]; simpl; try lia; lra.
Qed.
Example C10_ex_piece : piece_ok 3 {| q_rmin := -1; q_rmax := 5/2; q_c := [1; 0; 2]; q_r0 := 1/3; q_s := -2; q_red := true |}.
Proof. unfold piece_ok; simpl. split. lra. rewrite Rmax_right by lra. lra. Qed.
