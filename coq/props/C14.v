(* C14 — Radial distributions recover an exact angular model exactly.
   Only statements here; proofs in proofs/VmiInvProofs.v (about gen/VmiInv.v,
   which tools/translate/vmi_inv.py regenerates from abel/tools/vmi.py on
   every run), proofs/DistrGeomProofs.v, proofs/DistrFitProofs.v,
   proofs/DistrFitMx.v, proofs/C14R.v.
   Models: model/DistrGeom.v, model/DistrFit.v (abel/tools/vmi.py, class
   Distributions, methods 'nearest' and 'linear').

   quad_geom h w row col rmax odd N   geometry computed by _precalc for an
                                      origin (row, col) inside an h x w image
   fold_image 0 Rplus g IM            the folded quadrant Q of image()
   distr_cos Rops sqrtR meth g use_sin W IM
                                      Distributions(..).image(IM).cos(), one
                                      coefficient list per radius 0..rmax *)
From Coq Require Import List Arith Bool ZArith Reals.
From mathcomp Require Import all_ssreflect all_algebra.
From PA Require Import base.Arr base.Px base.MatL model.DistrGeom gen.VmiInv model.DistrFit
  proofs.VmiInvProofs proofs.DistrGeomProofs proofs.DistrFitProofs proofs.DistrFitMx proofs.C14R gen.VmiIndex proofs.VmiIndexProofs.
Import ListNotations.
Delimit Scope R_scope with RR.
Delimit Scope ring_scope with MC.

(* The hand-written 2x2 and 3x3 inverses (translated from the current source)
   are two-sided inverses of the Hankel matrix whenever the determinant the
   code tests is non-zero. *)
Theorem C14_inv2_correct : forall p0 p1 p2 : R, det2 p0 p1 p2 <> 0%RR ->
  matmulR (inv2R p0 p1 p2) (hankelR 2 [p0; p1; p2]) 2 = identR 2 /\
  matmulR (hankelR 2 [p0; p1; p2]) (inv2R p0 p1 p2) 2 = identR 2.
Proof. exact inv2_correct. Qed.
Print Assumptions C14_inv2_correct.

Theorem C14_inv3_correct : forall p0 p1 p2 p3 p4 : R, det3 p0 p1 p2 p3 p4 <> 0%RR ->
  matmulR (inv3R p0 p1 p2 p3 p4) (hankelR 3 [p0; p1; p2; p3; p4]) 3 = identR 3 /\
  matmulR (hankelR 3 [p0; p1; p2; p3; p4]) (inv3R p0 p1 p2 p3 p4) 3 = identR 3.
Proof. exact inv3_correct. Qed.
Print Assumptions C14_inv3_correct.

(* _precalc accepts => the geometry is quad_geom of an origin inside the image. *)
Theorem C14_precalc_inside : forall h w o rm order odd g,
  precalc h w o rm order odd = POk g ->
  exists row col rmax, (row < h)%coq_nat /\ (col < w)%coq_nat /\
    resolve_origin h w o = Some (Z.of_nat row, Z.of_nat col) /\
    g = quad_geom h w row col rmax (resolve_odd order odd) (nterms order odd).
Proof. exact precalc_inside. Qed.
Print Assumptions C14_precalc_inside.

(* Distributions.__init__ as translated from the current source (gen/VmiIndex.v,
   regenerated on every run): the odd flag and the number of angular terms N are
   the model's, for every order. *)
Theorem C14_init_index_translated : forall order odd,
  gen_init_odd order odd = resolve_odd order odd /\
  gen_init_N order (gen_init_odd order odd) = nterms order odd.
Proof. intros; split; [apply init_odd_translated|apply init_N_translated]. Qed.
Print Assumptions C14_init_index_translated.

(* fold_spec, even orders: for every shape, origin and rmax, all three code
   paths (four regions / image is one quadrant, flipped as needed), quadrant
   pixel [a][b] is the sum of the image pixels at row offset +-a and column
   offset +-b that lie inside the image. *)
Theorem C14_fold_spec_even : forall h w row col rmax N (IM : list (list R)) a b,
  (row < h)%coq_nat -> (col < w)%coq_nat ->
  let g := quad_geom h w row col rmax false N in
  (a < g_Qh g)%coq_nat -> (b < g_Qw g)%coq_nat ->
  px 0%RR (fold_image 0%RR Rplus g IM) a b = spec_even R 0%RR Rplus h w row col IM a b.
Proof. exact fold_spec_even_R. Qed.
Print Assumptions C14_fold_spec_even.

(* fold_spec, odd orders: only the columns are folded; quadrant row a is image
   row  row - y0 + a. *)
Theorem C14_fold_spec_odd : forall h w row col rmax N (IM : list (list R)) a b,
  (row < h)%coq_nat -> (col < w)%coq_nat ->
  let g := quad_geom h w row col rmax true N in
  (a < g_Qh g)%coq_nat -> (b < g_Qw g)%coq_nat ->
  px 0%RR (fold_image 0%RR Rplus g IM) a b = spec_odd R 0%RR Rplus w row col (g_y0 g) IM a b.
Proof. exact fold_spec_odd_R. Qed.
Print Assumptions C14_fold_spec_odd.

Theorem C14_fold_shape : forall h w row col rmax odd N (IM : list (list R)),
  (row < h)%coq_nat -> (col < w)%coq_nat ->
  let g := quad_geom h w row col rmax odd N in
  wf (g_Qh g) (g_Qw g) (fold_image 0%RR Rplus g IM).
Proof. exact wf_fold_image_R. Qed.
Print Assumptions C14_fold_shape.

(* Each image pixel is the source of exactly one guarded term of the folding
   specification: the one at (|i - row|, |j - col|) with the matching signs. *)
Theorem C14_fold_once_even : forall h w row col i j pr pc a b,
  (row < h)%coq_nat -> (col < w)%coq_nat -> (i < h)%coq_nat -> (j < w)%coq_nat ->
  (src_even h w row col pr pc a b = Some (i, j) <->
   a = dist i row /\ b = dist j col /\ pr = Nat.leb row i /\ pc = Nat.leb col j).
Proof. exact fold_once_even. Qed.
Print Assumptions C14_fold_once_even.

Theorem C14_fold_once_odd : forall w row col y0 i j pc a b,
  (col < w)%coq_nat -> (j < w)%coq_nat -> (y0 <= row)%coq_nat -> (row - y0 <= i)%coq_nat ->
  (src_odd w row col y0 pc a b = Some (i, j) <->
   a = (i - (row - y0))%coq_nat /\ b = dist j col /\ pc = Nat.leb col j).
Proof. exact fold_once_odd. Qed.
Print Assumptions C14_fold_once_odd.

(* fit_exact (nearest and linear, with or without sin weighting, any weights
   array or none, any origin inside the image, any rmax), for the orders whose
   normal matrix the code inverts by its own formulas (N = 1, 2, 3 angular
   terms: order 0, 2, 4 without odd terms, order 1, 2 with them):
   if the image equals sum_n c_n(bin) x^n about the origin (x = cos or cos^2 of
   the polar angle; c_n constant over r for 'linear'), Distributions returns
   c_n(r) at every radius r <= rmax whose Hankel determinant is non-zero. *)
Theorem C14_fit_exact_partial :
  forall h w row col rmax odd N meth use_sin (W : option (list (list R))) IM c0 c1 c2 r,
  (row < h)%coq_nat -> (col < w)%coq_nat -> wf h w IM ->
  (forall Wt, W = Some Wt -> wf h w Wt) ->
  let g := quad_geom h w row col rmax odd N in
  model_image meth g c0 c1 c2 IM ->
  radial_const meth c0 -> radial_const meth c1 -> radial_const meth c2 ->
  (N = 1%N /\ c1 = zero_fun /\ c2 = zero_fun \/ N = 2%N /\ c2 = zero_fun \/ N = 3%N) ->
  (r <= rmax)%coq_nat ->
  hdet N (distr_pixels Rops sqrtR meth g use_sin W IM r) <> 0%RR ->
  List.nth r (distr_cos Rops sqrtR meth g use_sin W IM) None
  = Some (List.firstn N [c0 r; c1 r; c2 r]).
Proof. exact distr_exact. Qed.
Print Assumptions C14_fit_exact_partial.

(* The same statement for any number of angular terms (general inverse), over
   any field, at the level of the pixels of one radius: weights w, abscissae x,
   weighted data q = w * sum_m c_m x^m  =>  inv(Hankel) . data = c. *)
Theorem C14_fit_exact_any_order :
  forall (F : fieldType) (K N : nat) (w x q : 'I_K -> F) (c : 'I_N -> F),
  (forall k, q k = (w k * \sum_m c m * x k ^+ m)%MC) ->
  hankelM N w x \in unitmx -> (invmx (hankelM N w x) *m dataV N x q = coefV c)%MC.
Proof. exact fit_exact_general. Qed.
Print Assumptions C14_fit_exact_any_order.

(* hankel_nonsingular: N pixels of positive weight with pairwise different
   abscissae (and no negative weight anywhere) make the Hankel matrix of a
   radius invertible -- the "full angular range and a few pixels" condition. *)
Theorem C14_hankel_nonsingular :
  forall (F : realFieldType) (K N : nat) (w x : 'I_K -> F),
  (forall k, (0 <= w k)%MC) ->
  forall f : 'I_N -> 'I_K, (forall i, (0 < w (f i))%MC) -> injective (x \o f) ->
  hankelM N w x \in unitmx.
Proof. exact hankel_nonsingular. Qed.
Print Assumptions C14_hankel_nonsingular.

Example C14_hypotheses_satisfiable :
  Forall (exact_px 1 2 0) [(1, 0, 1); (1, 1, 3)]%RR /\ hdet 2 [(1, 0, 1); (1, 1, 3)]%RR <> 0%RR.
Proof. exact exact_example. Qed.

(* anisotropy_parameter: for a noiseless curve A [1 + beta P2(cos theta)] sampled
   where cos^2(theta) takes at least two values, (A, beta) is the unique global
   minimiser of the least-squares objective that the fit minimises (the
   optimiser itself, scipy curve_fit, is exercised numerically only). *)
Theorem C14_beta_fit_unique_partial : forall (A b : R) xs x1 x2,
  A <> 0%RR -> In x1 xs -> In x2 xs -> (x1 * x1 <> x2 * x2)%RR ->
  (forall A' b', (sse A b A b xs <= sse A b A' b' xs)%RR) /\
  (forall A' b', (sse A b A' b' xs <= sse A b A b xs)%RR -> A' = A /\ b' = b).
Proof. exact beta_fit_unique. Qed.
Print Assumptions C14_beta_fit_unique_partial.
