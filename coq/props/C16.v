(* C16 — rBasex image, distributions and output shapes describe one transform.
   Only statements here; proofs in proofs/RbasexProofs.v, proofs/RbasexSynth.v.
   Model: model/RbasexOut.v (abel/rbasex.py: rbasex_transform output part,
   _get_image_bs, _image), on the geometry of model/DistrGeom.v; the
   distributions themselves are those of C14/C15 (Distributions, linear, no sin).

   gq h w row col rmax N odd   _dst of an h x w image with origin (row, col)
   base_wf ... out B           B has the size rbasex_transform requests from _image
   assemble out g B            rbasex.py:238-253 applied to the array B of _image
   recon Rops sqrtR cache out g c
                               the returned image for profiles c, given the state
                               of the module cache (_ibs_prm, _ibs) (None = fresh) *)
From Coq Require Import List Arith Bool ZArith Reals QArith.
From PA Require Import base.Arr base.Px base.MatL model.DistrGeom model.DistrFit model.RbasexOut
  model.DistrQ proofs.VmiInvProofs proofs.DistrFitProofs proofs.RbasexProofs proofs.RbasexSynth gen.VmiIndex proofs.VmiIndexProofs.
Import ListNotations.

(* _image is the synthesis sum_n lerp(c_n, r) cos^n(theta): *)
Theorem C16_image_is_synthesis : forall odd rmax brow (c : list (list R)) a b,
  image_px Rops sqrtR odd rmax brow c a b
  = synth_from 0 (map (fun cn => radial_term Rops sqrtR rmax brow cn a b) c) (icos Rops sqrtR odd brow a b).
Proof. exact image_is_synthesis. Qed.
Print Assumptions C16_image_is_synthesis.

(* ... each radial factor being the linear interpolation between the integer
   radii k = floor(r) and k + 1 of the profile continued by zero beyond rmax
   (so it falls linearly to zero between rmax and rmax + 1) ... *)
Theorem C16_radial_term_lerp : forall rmax brow (cn : list R) a b, length cn = (rmax + 1)%nat ->
  let k := ibin rmax brow a b in
  radial_term Rops sqrtR rmax brow cn a b
  = (iwl Rops sqrtR rmax brow a b * cext rmax cn k + iwu Rops sqrtR rmax brow a b * cext rmax cn (k + 1))%R.
Proof. exact radial_term_lerp. Qed.
Print Assumptions C16_radial_term_lerp.

(* ... and zero from one pixel beyond rmax on. *)
Theorem C16_zero_beyond_rmax : forall rmax brow (cn : list R) a b, length cn = (rmax + 1)%nat ->
  (rmax < Nat.sqrt (ir2 brow a b))%nat -> radial_term Rops sqrtR rmax brow cn a b = 0%R.
Proof. exact radial_term_beyond. Qed.
Print Assumptions C16_zero_beyond_rmax.

(* out='same' (fresh image-basis cache): the input's shape, and pixel (i, j) is
   the synthesis at the offset of (i, j) from the origin (row, col). *)
Theorem C16_out_same_is_synthesis : forall h w row col rmax N, (row < h)%nat -> (col < w)%nat ->
  forall odd (c : list (list R)) i j, (i < h)%nat -> (j < w)%nat ->
  shape_of (recon Rops sqrtR None OSame (gq h w row col rmax N odd) c) = (h, w) /\
  px 0%R (recon Rops sqrtR None OSame (gq h w row col rmax N odd) c) i j
  = image_px Rops sqrtR odd rmax (if odd then row else 0%nat) c (if odd then i else dist i row) (dist j col).
Proof. exact recon_same_is_synthesis. Qed.
Print Assumptions C16_out_same_is_synthesis.

(* Output geometry, for every shape, origin, rmax and parity, in terms of the
   array B built by _image: *)
Theorem C16_out_same_shape_origin : forall (h w row col rmax N : nat), (row < h)%nat -> (col < w)%nat ->
  forall odd (B : list (list R)), base_wf R h w row col rmax N odd OSame B ->
  wf h w (assemble OSame (gq h w row col rmax N odd) B) /\
  forall i j, (i < h)%nat -> (j < w)%nat ->
    px 0%R (assemble OSame (gq h w row col rmax N odd) B) i j
    = px 0%R B (if odd then i else dist i row) (dist j col).
Proof. exact (out_same_shape_origin R 0%R). Qed.
Print Assumptions C16_out_same_shape_origin.

Theorem C16_out_full_shape : forall (h w row col rmax N : nat), (row < h)%nat -> (col < w)%nat ->
  forall odd (B : list (list R)),
  base_wf R h w row col rmax N odd OFull B ->
  wf (2 * rmax + 1) (2 * rmax + 1) (assemble OFull (gq h w row col rmax N odd) B) /\
  forall i j, (i < 2 * rmax + 1)%nat -> (j < 2 * rmax + 1)%nat ->
    px 0%R (assemble OFull (gq h w row col rmax N odd) B) i j
    = px 0%R B (if odd then i else dist i rmax) (dist j rmax).
Proof. exact (out_full_shape R 0%R). Qed.
Print Assumptions C16_out_full_shape.

Theorem C16_full_unique_is_part : forall (h w row col rmax N : nat), (row < h)%nat -> (col < w)%nat ->
  forall odd (B : list (list R)),
  base_wf R h w row col rmax N odd OFull B ->
  let Hh := if odd then (2 * rmax + 1)%nat else (rmax + 1)%nat in
  wf Hh (rmax + 1) (assemble OFullUnique (gq h w row col rmax N odd) B) /\
  forall a b, (a < Hh)%nat -> (b < rmax + 1)%nat ->
    px 0%R (assemble OFullUnique (gq h w row col rmax N odd) B) a b
    = px 0%R (assemble OFull (gq h w row col rmax N odd) B) a (rmax + b).
Proof. exact (full_unique_is_part R 0%R). Qed.
Print Assumptions C16_full_unique_is_part.

Theorem C16_unfold_is_mirror : forall (h w row col rmax N : nat), (row < h)%nat -> (col < w)%nat ->
  forall odd (B : list (list R)),
  base_wf R h w row col rmax N odd OFold B ->
  let Qh := g_Qh (gq h w row col rmax N odd) in let Qw := g_Qw (gq h w row col rmax N odd) in
  let Uh := if odd then Qh else (2 * Qh - 1)%nat in
  (1 <= Qh)%nat -> (1 <= Qw)%nat ->
  wf Uh (2 * Qw - 1) (assemble OUnfold (gq h w row col rmax N odd) B) /\
  forall i j, (i < Uh)%nat -> (j < 2 * Qw - 1)%nat ->
    px 0%R (assemble OUnfold (gq h w row col rmax N odd) B) i j
    = px 0%R (assemble OFold (gq h w row col rmax N odd) B)
         (if odd then i else (Qh - 1 - dist i (Qh - 1))%nat) (dist j (Qw - 1)).
Proof. exact (unfold_is_mirror R 0%R). Qed.
Print Assumptions C16_unfold_is_mirror.

Theorem C16_fold_is_part_of_unfold : forall (h w row col rmax N : nat), (row < h)%nat -> (col < w)%nat ->
  forall odd (B : list (list R)),
  base_wf R h w row col rmax N odd OFold B ->
  let Qh := g_Qh (gq h w row col rmax N odd) in let Qw := g_Qw (gq h w row col rmax N odd) in
  (1 <= Qh)%nat -> (1 <= Qw)%nat ->
  wf Qh Qw (assemble OFold (gq h w row col rmax N odd) B) /\
  forall a b, (a < Qh)%nat -> (b < Qw)%nat ->
    px 0%R (assemble OFold (gq h w row col rmax N odd) B) a b
    = px 0%R (assemble OUnfold (gq h w row col rmax N odd) B) a (Qw - 1 + b).
Proof. exact (fold_is_part_of_unfold R 0%R). Qed.
Print Assumptions C16_fold_is_part_of_unfold.

(* The odd resolution and the (height, width, row) requested from _image for each
   `out` value, as translated from the current rbasex_transform source
   (gen/VmiIndex.v, regenerated on every run), are the model's. *)
Theorem C16_out_dims_translated : forall out g order odd,
  gen_out_dims out g = out_dims out g /\ gen_rbasex_odd order odd = resolve_odd order odd.
Proof. intros; split; [apply out_dims_translated|apply rbasex_odd_translated]. Qed.
Print Assumptions C16_out_dims_translated.

(* All out values (and None) return identical distributions: they are computed
   before `out` is looked at (structural in the model; swept on the implementation). *)
Theorem C16_distr_independent_of_out : forall cache cache' out out' g (c : list (list R)),
  snd (rbasex_result cache out g c) = snd (rbasex_result cache' out' g c).
Proof. exact distr_independent_of_out. Qed.

(* Radii flagged invalid are zero in the unregularised transforms (masked rows). *)
Theorem C16_invalid_radii_zero : forall valid (M : list (list R)) (p : list R) r,
  (r < length M)%nat -> (r < length valid)%nat -> nth r valid true = false ->
  nth r (matvec 0%R Rplus Rmult (mask_rows valid M) p) 0%R = 0%R.
Proof. exact invalid_radii_zero. Qed.
Print Assumptions C16_invalid_radii_zero.

(* History independence (was the recorded finding C16-ibs, fixed in /repo by
   5c177c1: the image-basis cache is keyed by [height, width, row]): after any
   sequence of earlier calls with the same image parameters and any out values,
   without cache clean-up, the returned image is the one a fresh cache gives. *)
Theorem C16_ibs_history_independent :
  forall (g : geom) (history : list outv) (out : outv) (c : list (list R)),
  recon Rops sqrtR (cache_after_history g history) out g c = recon Rops sqrtR None out g c.
Proof. exact (ibs_history_independent R Rops sqrtR). Qed.
Print Assumptions C16_ibs_history_independent.

Example C16_hypotheses_satisfiable :
  base_wf R 5 5 2 2 1 1 false OFull [[1; 2]; [3; 4]]%R /\ (2 < 5)%nat.
Proof. split; [repeat constructor|repeat constructor]. Qed.
