(* C09 — every basis projection and operator element equals its defining Abel
   integral.  Only statements here; proofs are in proofs/AbelLemmas.v,
   proofs/C09Daun.v, proofs/C09Dasch.v.

   Model: model/Abel.v
     Abel f Rm x    = 2 * int_0^sqrt(Rm^2-x^2) f(sqrt(x^2+y^2)) dy      (Coquelicot RInt)
     InvAbel dP Rm r = -1/pi * int_0^sqrt(Rm^2-r^2) dP(rho)/rho dy,  rho = sqrt(r^2+y^2)
     rect c, tri c  : the degree-0 / degree-1 basis functions of abel/daun.py
     dhat c, dpar c : derivative of the two-point (piecewise linear) and of the
                      three-point (piecewise parabolic) interpolant of the unit
                      data vector e_c  (abel/dasch.py, Dasch Eq. (7)-(10)).
   The formulas daun_p0, daun_p1, onion_W, two_point_D, three_point_D are NOT
   written by hand: gen/FormulasBasis.v is regenerated from abel/daun.py and
   abel/dasch.py on every run (tools/translate/formulas_basis.py), including the
   symbolic execution of the slice / index-set statements into per-entry guards.
   Indices are integers (Z); every theorem holds for all sizes and indices.

   Not covered by theorems (per-instance Interval goals + quadrature sweep, see
   evidence): daun degrees 2 and 3, rbasex, basex.  The Dasch axis row i = 0
   is a documented convention of the methods (the integrand P'(x)/x of the
   interpolant is not integrable at the axis); it is tied to the code only by
   the translation validation. *)
From Coq Require Import Reals ZArith Lia Lra.
From Coquelicot Require Import Coquelicot.
From PA Require Import model.Abel proofs.AbelLemmas proofs.C09Daun proofs.C09Dasch gen.FormulasBasis.
Open Scope R_scope.

(* daun, degree 0: A[j][i] is the Abel transform at pixel i of the indicator of
   [j-1/2, j+1/2). *)
Theorem C09_daun0_entry : forall i j : Z, (0 <= i)%Z -> (0 <= j)%Z ->
  daun_p0 j i = Abel (rect (IZR j)) (IZR j + 1 / 2) (IZR i).
Proof. exact daun0_entry. Qed.
Print Assumptions C09_daun0_entry.

(* daun, degree 1: A[j][i] is the Abel transform at pixel i of the triangle
   max(0, 1 - |r - j|) (including j = 0, i = j, i = j - 1 with their x^2 ln x
   corrections, and the zero entries i > j). *)
Theorem C09_daun1_entry : forall i j : Z, (0 <= i)%Z -> (0 <= j)%Z ->
  daun_p1 j i = Abel (tri (IZR j)) (IZR j + 1) (IZR i).
Proof. exact daun1_entry. Qed.
Print Assumptions C09_daun1_entry.

(* the same at every real position x and centre c (not only pixels) *)
Theorem C09_abel_rect_real : forall x c : R, 0 <= x -> 0 <= c ->
  Abel (rect c) (c + 1 / 2) x = 2 * (ylos x (c + 1 / 2) - ylos x (c - 1 / 2)).
Proof. exact Abel_rect. Qed.
Print Assumptions C09_abel_rect_real.

Theorem C09_abel_tri_real : forall x c : R, 0 <= x -> 0 <= c ->
  Abel (tri c) (c + 1) x = Pt (c + 1) x - 2 * Pt c x + Pt (c - 1) x.
Proof. exact Abel_tri. Qed.
Print Assumptions C09_abel_tri_real.

(* Dasch onion peeling: the weight matrix W (whose inverse is the operator) is
   the transposed degree-0 Daun matrix, entry by entry, for every size: hence
   W[i][j] is the Abel transform at pixel i of the indicator of the j-th ring. *)
Theorem C09_onion_W_eq_daun0 : forall cols i j : Z, (0 <= i < cols)%Z -> (0 <= j < cols)%Z ->
  onion_W cols i j = daun_p0 j i.
Proof. exact onion_W_eq_daun0. Qed.
Print Assumptions C09_onion_W_eq_daun0.

Theorem C09_onion_W_entry : forall cols i j : Z, (0 <= i < cols)%Z -> (0 <= j < cols)%Z ->
  onion_W cols i j = Abel (rect (IZR j)) (IZR j + 1 / 2) (IZR i).
Proof. intros; rewrite onion_W_eq_daun0 by assumption; apply daun0_entry; lia. Qed.
Print Assumptions C09_onion_W_entry.

(* Dasch two-point: D[i][j] (row i >= 1) is the inverse Abel integral at r = i of
   the piecewise-linear interpolant of the unit vector e_j; by linearity
   sum_j D[i][j] P_j is the inverse Abel integral of the interpolant of P. *)
Theorem C09_two_point_entry : forall cols i j : Z, (1 <= i < cols)%Z -> (0 <= j < cols)%Z ->
  two_point_D cols i j = InvAbel (dhat (IZR j)) (IZR j + 1) (IZR i).
Proof. exact two_point_entry. Qed.
Print Assumptions C09_two_point_entry.

(* Dasch three-point: the same with the piecewise-parabolic interpolant. *)
Theorem C09_three_point_entry : forall cols i j : Z, (1 <= i < cols)%Z -> (0 <= j < cols)%Z ->
  three_point_D cols i j = InvAbel (dpar (IZR j)) (IZR j + 3 / 2) (IZR i).
Proof. exact three_point_entry. Qed.
Print Assumptions C09_three_point_entry.

(* the hypotheses are satisfiable *)
Example C09_hyps_ok : (1 <= 3 < 10)%Z /\ (0 <= 5 < 10)%Z /\ 0 <= 3 / 2 /\ 0 <= IZR 4.
Proof. repeat split; try lia; lra. Qed.
