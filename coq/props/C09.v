(* C09 — every basis projection and operator element equals its defining Abel
   integral.  Only statements here; proofs are in proofs/AbelLemmas.v,
   proofs/C09Daun.v, proofs/C09Daun2.v, proofs/C09Daun3.v, proofs/C09Dasch.v,
   proofs/C09Rbasex.v.

   Model: model/Abel.v
     Abel f Rm x    = 2 * int_0^sqrt(Rm^2-x^2) f(sqrt(x^2+y^2)) dy      (Coquelicot RInt)
     InvAbel dP Rm r = -1/pi * int_0^sqrt(Rm^2-r^2) dP(rho)/rho dy,  rho = sqrt(r^2+y^2)
     rect c, tri c, quad2 c, herm_p c, herm_q c : the basis functions of abel/daun.py
                      (degrees 0, 1, 2 and the Hermite pair of degree 3)
     rbasex_proj n R r : 2 int tri_R(rho) (r/rho)^n dy  (abel/rbasex.py)
     dhat c, dpar c : derivative of the two-point (piecewise linear) and of the
                      three-point (piecewise parabolic) interpolant of the unit
                      data vector e_c  (abel/dasch.py, Dasch Eq. (7)-(10)).
   The formulas daun_p0/1/2/3, daun_q3, onion_W, two_point_D, three_point_D, rbasex_p0..8 are NOT
   written by hand: gen/FormulasBasis.v is regenerated from abel/daun.py,
   abel/dasch.py, abel/rbasex.py on every run (tools/translate/formulas_basis.py), including the
   symbolic execution of the slice / index-set statements into per-entry guards.
   Indices are integers (Z); every theorem holds for all sizes and indices.

   Not covered by theorems (per-instance Interval goals + quadrature sweep, see
   evidence): the clamped-spline solve of daun degree 3, basex.  The Dasch axis row i = 0
   is a documented convention of the methods (the integrand P'(x)/x of the
   interpolant is not integrable at the axis); it is tied to the code only by
   the translation validation. *)
From Coq Require Import Reals ZArith Lia Lra.
From Coquelicot Require Import Coquelicot.
From PA Require Import model.Abel proofs.AbelLemmas proofs.C09Daun proofs.C09Daun2 proofs.C09Daun3 proofs.C09Dasch proofs.C09Rbasex
  proofs.ExactOnSpan proofs.C09Daun3Comb proofs.C09Daun3Spline proofs.C09DaschAxis proofs.C09Prefix proofs.C09Basex gen.FormulasBasis.
Open Scope R_scope.

(* daun, degree 0: A[j][i] is the Abel transform at pixel i of the indicator of
   [j-1/2, j+1/2). *)
Theorem C09_daun0_entry : forall i j : Z, (0 <= i)%Z -> (0 <= j)%Z ->
  daun_p0 j i = Abel (rect (IZR j)) (IZR j + 1 / 2) (IZR i).
Proof. exact daun0_entry. Qed.
Print Assumptions C09_daun0_entry.

(* daun, degree 1: A[j][i] is the Abel transform at pixel i of the triangle
   max(0, 1 - |r - j|) (including j = 0, i = j, i = j - 1 with their x^2 ln x
   corrections, and the zero entries i > j). *)
Theorem C09_daun1_entry : forall i j : Z, (0 <= i)%Z -> (0 <= j)%Z ->
  daun_p1 j i = Abel (tri (IZR j)) (IZR j + 1) (IZR i).
Proof. exact daun1_entry. Qed.
Print Assumptions C09_daun1_entry.

(* daun, degree 2: A[j][i] is the Abel transform at pixel i of the piecewise
   quadratic 2(r-j+1)^2 | 1-2(r-j)^2 | 2(r-j-1)^2 (breaks at j-1, j-1/2, j+1/2, j+1). *)
Theorem C09_daun2_entry : forall i j : Z, (0 <= i)%Z -> (0 <= j)%Z ->
  daun_p2 j i = Abel (quad2 (IZR j)) (IZR j + 1) (IZR i).
Proof. exact daun2_entry. Qed.
Print Assumptions C09_daun2_entry.

(* daun, degree 3: the Hermite value and derivative projections p(j), q(j) of
   _bs_daun are the Abel transforms of the Hermite basis functions
   1 - 3t^2 + 2t^3 and u (1 - |u|)^2 (u = r - j, t = |u| <= 1).  The combination
   of both into the clamped cubic spline basis (solve_banded) is not modelled:
   `_partial` with respect to the degree-3 matrix. *)
Theorem C09_daun3_hermite_entry_partial : forall i j : Z, (0 <= i)%Z -> (0 <= j)%Z ->
  daun_p3 j i = Abel (herm_p (IZR j)) (IZR j + 1) (IZR i) /\
  daun_q3 j i = Abel (herm_q (IZR j)) (IZR j + 1) (IZR i).
Proof. intros i j Hi Hj; split; [apply daun3p_entry | apply daun3q_entry]; assumption. Qed.
Print Assumptions C09_daun3_hermite_entry_partial.

(* the same at every real position x and centre c (not only pixels) *)
Theorem C09_abel_rect_real : forall x c : R, 0 <= x -> 0 <= c ->
  Abel (rect c) (c + 1 / 2) x = 2 * (ylos x (c + 1 / 2) - ylos x (c - 1 / 2)).
Proof. exact Abel_rect. Qed.
Print Assumptions C09_abel_rect_real.

Theorem C09_abel_tri_real : forall x c : R, 0 <= x -> 0 <= c ->
  Abel (tri c) (c + 1) x = Pt (c + 1) x - 2 * Pt c x + Pt (c - 1) x.
Proof. exact Abel_tri. Qed.
Print Assumptions C09_abel_tri_real.

(* Dasch onion peeling: the weight matrix W (whose inverse is the operator) is
   the transposed degree-0 Daun matrix, entry by entry, for every size: hence
   W[i][j] is the Abel transform at pixel i of the indicator of the j-th ring. *)
Theorem C09_onion_W_eq_daun0 : forall cols i j : Z, (0 <= i < cols)%Z -> (0 <= j < cols)%Z ->
  onion_W cols i j = daun_p0 j i.
Proof. exact onion_W_eq_daun0. Qed.
Print Assumptions C09_onion_W_eq_daun0.

Theorem C09_onion_W_entry : forall cols i j : Z, (0 <= i < cols)%Z -> (0 <= j < cols)%Z ->
  onion_W cols i j = Abel (rect (IZR j)) (IZR j + 1 / 2) (IZR i).
Proof. intros; rewrite onion_W_eq_daun0 by assumption; apply daun0_entry; lia. Qed.
Print Assumptions C09_onion_W_entry.

(* Dasch two-point: D[i][j] (row i >= 1) is the inverse Abel integral at r = i of
   the piecewise-linear interpolant of the unit vector e_j; by linearity
   sum_j D[i][j] P_j is the inverse Abel integral of the interpolant of P. *)
Theorem C09_two_point_entry : forall cols i j : Z, (1 <= i < cols)%Z -> (0 <= j < cols)%Z ->
  two_point_D cols i j = InvAbel (dhat (IZR j)) (IZR j + 1) (IZR i).
Proof. exact two_point_entry. Qed.
Print Assumptions C09_two_point_entry.

(* Dasch three-point: the same with the piecewise-parabolic interpolant. *)
Theorem C09_three_point_entry : forall cols i j : Z, (1 <= i < cols)%Z -> (0 <= j < cols)%Z ->
  three_point_D cols i j = InvAbel (dpar (IZR j)) (IZR j + 3 / 2) (IZR i).
Proof. exact three_point_entry. Qed.
Print Assumptions C09_three_point_entry.

(* rbasex: for every order n = 0..8 (odd and even) the generated radial projection
   P[n][R, r] (antiderivatives F_{n-1}, F_n, rFRF, second-difference stencil of
   abel/rbasex.py) is 2 int_0^Y tri_R(rho) (r/rho)^n dy, rho = sqrt(r^2+y^2): the
   radial part of the projection of tri_R(rho) cos^n(theta), for all 1 <= r <= R.
   (The column r = 0 and the entry [0,0] are constants of the code: checked by the
   correspondence and the quadrature sweep.) *)
Theorem C09_rbasex_entry : forall Rc r : Z, (1 <= r)%Z -> (r <= Rc)%Z ->
  rbasex_p0 Rc r = rbasex_proj 0 (IZR Rc) (IZR r) /\
  rbasex_p1 Rc r = rbasex_proj 1 (IZR Rc) (IZR r) /\
  rbasex_p2 Rc r = rbasex_proj 2 (IZR Rc) (IZR r) /\
  rbasex_p3 Rc r = rbasex_proj 3 (IZR Rc) (IZR r) /\
  rbasex_p4 Rc r = rbasex_proj 4 (IZR Rc) (IZR r) /\
  rbasex_p5 Rc r = rbasex_proj 5 (IZR Rc) (IZR r) /\
  rbasex_p6 Rc r = rbasex_proj 6 (IZR Rc) (IZR r) /\
  rbasex_p7 Rc r = rbasex_proj 7 (IZR Rc) (IZR r) /\
  rbasex_p8 Rc r = rbasex_proj 8 (IZR Rc) (IZR r).
Proof. exact rbasex_all_entry. Qed.
Print Assumptions C09_rbasex_entry.

(* the recursion F[n+2] = (z f^n + (n-1) F[n]) / n of the code turns an
   antiderivative of (r/rho)^n into one of (r/rho)^(n+2), for every n >= 1 *)
Theorem C09_rbasex_F_step : forall (m : nat) (F : R -> R -> R) (r : R), 0 < r ->
  (forall z, is_derive (F r) z ((r / sqrt (r * r + z * z)) ^ S m)) ->
  forall z, is_derive (fun z => (z * (r / sqrt (r * r + z * z)) ^ S m + (INR (S m) - 1) * F r z) / INR (S m)) z
                      ((r / sqrt (r * r + z * z)) ^ (2 + S m)).
Proof. exact rbasex_F_step. Qed.
Print Assumptions C09_rbasex_F_step.

(* ---- stretch 2 -------------------------------------------------------------- *)

(* daun degree 3, Hermite form: for ANY slopes m the function
   herm_p_j + sum_k m_k herm_q_k has the projection daun_p3 j i + sum_k m_k daun_q3 k i
   at every pixel; _bs_daun assembles its degree-3 rows in this form with the slopes
   of the banded solve.  (That the solve returns the clamped-spline slopes is
   linear algebra, not modelled; the relation it solves is the C^2 condition:
   C09_spline_C2_iff_tridiagonal.) *)
Theorem C09_daun3_hermite_combination : forall (n j : nat) (m : nat -> R) (i : Z), (0 <= i)%Z -> (j < n)%nat ->
  Abel (hermite_comb j m n) (zc n) (IZR i) =
  daun_p3 (Z.of_nat j) i + sumn n (fun k => m k * daun_q3 (Z.of_nat k) i).
Proof. exact daun3_hermite_combination. Qed.
Print Assumptions C09_daun3_hermite_combination.

Theorem C09_spline_C2_iff_tridiagonal : forall ykm yk ykp mkm mk mkp : R,
  yk * Derive_n p_up 2 0 + mk * Derive_n q_up 2 0 + ykp * Derive_n p_lo 2 (-1) + mkp * Derive_n q_lo 2 (-1)
  = yk * Derive_n p_lo 2 0 + mk * Derive_n q_lo 2 0 + ykm * Derive_n p_up 2 1 + mkm * Derive_n q_up 2 1
  <-> mkm + 4 * mk + mkp = 3 * (ykp - ykm).
Proof. exact spline_C2_iff_tridiagonal. Qed.
Print Assumptions C09_spline_C2_iff_tridiagonal.

(* daun degree 3, the row shuffle of _bs_daun:
     C = solve_banded((1,1), (0 1..1 0 | 4..4 | 0 1..1 0), 3*B)[1:-1, 1:-1];
     A[2:, 1:-1] += C;  A[:-2, 1:-1] -= C
   i.e. A[j][i] = p(j)[i] + X[j-1][i] - X[j+1][i] with X the interior rows of the solve
   (x k = X[k][i], cropped rows = 0: prev x j - x (j+1)).  For ANY solution x of the
   interior (1,4,1) system with right-hand side 3*q(k)[i] and ANY slopes m with zero
   end slopes that satisfy the C^2 relations of the cardinal spline of knot j
   (C09_spline_C2_iff_tridiagonal with y = e_j), the entry is the Abel projection of
   that spline, herm_p_j + sum_k m_k herm_q_k.  (n = S N knots.)  Existence of the
   two solutions (diagonally dominant systems) is the job of solve_banded and is a
   hypothesis here; the index conventions of the shuffle are tied numerically
   (structure check: p3/q3 + replicated solve = _bs_daun(n, 3) at all entries). *)
Theorem C09_daun3_spline_entry : forall (N j : nat) (i : Z) (m x : nat -> R),
  (j <= N)%nat -> (0 <= i)%Z ->
  m O = 0 -> m N = 0 ->
  (forall k, (1 <= k < N)%nat -> tri3 m k = 3 * (delta j (S k) - delta k (S j))) ->
  x O = 0 -> x N = 0 ->
  (forall k, (1 <= k < N)%nat -> tri3 x k = 3 * daun_q3 (Z.of_nat k) i) ->
  daun_p3 (Z.of_nat j) i + prev x j - (if (S j <? S N)%nat then x (S j) else 0)
  = Abel (hermite_comb j m (S N)) (zc (S N)) (IZR i).
Proof. exact daun3_spline_entry. Qed.
Print Assumptions C09_daun3_spline_entry.

(* pixel columns 0 and >= N: the code adds no correction there, and none is due:
   the right-hand sides q(k)[i] vanish (odd symmetry / support), so p(j)[i] alone
   is the projection of the spline *)
Theorem C09_daun3_spline_entry_edge : forall (N j : nat) (i : Z) (m : nat -> R),
  (j <= N)%nat -> (i = 0 \/ Z.of_nat N <= i)%Z ->
  m O = 0 -> m N = 0 ->
  (forall k, (1 <= k < N)%nat -> tri3 m k = 3 * (delta j (S k) - delta k (S j))) ->
  daun_p3 (Z.of_nat j) i = Abel (hermite_comb j m (S N)) (zc (S N)) (IZR i).
Proof. exact daun3_spline_entry_edge. Qed.
Print Assumptions C09_daun3_spline_entry_edge.

(* Dasch axis row i = 0.  two_point: genuine inverse Abel integrals for j >= 2, the
   documented convention for j = 0, 1.  three_point: inverse Abel integral of the
   interpolant for EVERY j, with the symmetric parabola on the axis segment
   (dpar 0 / dpar_sym1 / dpar j).  Together with C09_two_point_entry and
   C09_three_point_entry every entry of both operators is covered. *)
Theorem C09_two_point_row0_entry : forall cols j : Z, (2 <= j < cols)%Z ->
  two_point_D cols 0 j = InvAbel (dhat (IZR j)) (IZR j + 1) 0.
Proof. exact two_point_row0_entry. Qed.
Print Assumptions C09_two_point_row0_entry.

Theorem C09_two_point_axis_convention : forall cols : Z, (2 <= cols)%Z ->
  two_point_D cols 0 0 = 2 / PI /\ two_point_D cols 0 1 = ln 2 / PI - 2 / PI.
Proof. exact two_point_axis_convention. Qed.
Print Assumptions C09_two_point_axis_convention.

Theorem C09_three_point_row0_entry : forall cols j : Z, (2 <= j < cols)%Z ->
  three_point_D cols 0 j = InvAbel (dpar (IZR j)) (IZR j + 3 / 2) 0.
Proof. exact three_point_row0_entry. Qed.
Print Assumptions C09_three_point_row0_entry.

Theorem C09_three_point_row0_col0 : forall cols : Z, (1 <= cols)%Z ->
  three_point_D cols 0 0 = InvAbel (dpar 0) (0 + 3 / 2) 0.
Proof. exact three_point_row0_col0. Qed.
Print Assumptions C09_three_point_row0_col0.

Theorem C09_three_point_row0_col1 : forall cols : Z, (2 <= cols)%Z ->
  three_point_D cols 0 1 = InvAbel dpar_sym1 (1 + 3 / 2) 0.
Proof. exact three_point_row0_col1. Qed.
Print Assumptions C09_three_point_row0_col1.

(* prefix property: the entry does not depend on the size the matrix was generated
   for (the caches return M[:n, :n]); daun_p<d> and rbasex_p<n> have no size
   argument at all.  For onion peeling the operator is inv(W): crop commutes with
   the inverse of a triangular matrix (proofs/TriangularCrop.v, C07). *)
Theorem C09_dasch_prefix : forall n m i j : Z, (0 <= i < n)%Z -> (0 <= j < n)%Z -> (n <= m)%Z ->
  two_point_D n i j = two_point_D m i j /\ three_point_D n i j = three_point_D m i j /\
  onion_W n i j = onion_W m i j.
Proof.
  intros n m i j Hi Hj Hn. repeat split;
  [apply two_point_prefix | apply three_point_prefix | apply onion_W_prefix]; assumption.
Qed.
Print Assumptions C09_dasch_prefix.

Theorem C09_triangular_shape : forall n i j : Z, (0 <= j)%Z -> (i < n)%Z ->
  ((j < i)%Z -> two_point_D n i j = 0 /\ onion_W n i j = 0 /\ daun_p0 j i = 0 /\ daun_p1 j i = 0) /\
  ((j + 1 < i)%Z -> three_point_D n i j = 0).
Proof.
  intros n i j Hj Hi. split.
  - intros H. repeat split; [apply two_point_upper | apply onion_W_upper | apply daun_lower | apply daun_lower]; lia.
  - intros H. apply three_point_band; lia.
Qed.
Print Assumptions C09_triangular_shape.

(* basex: the tabulated basis functions rho_k(r_i) (matrix Mc of _bs_basex) are the
   documented (e/k^2)^(k^2) (r/sigma)^(2k^2) exp(-(r/sigma)^2) *)
Theorem C09_basex_rho_formula : forall (k : nat) (sigma r : R), (1 <= k)%nat -> 0 < sigma -> 0 < r ->
  basex_Mck (INR k) sigma r =
  (exp 1 / INR (k * k)) ^ (k * k) * (r / sigma) ^ (2 * (k * k)) * exp (- ((r / sigma) * (r / sigma))).
Proof. exact basex_rho_formula. Qed.
Print Assumptions C09_basex_rho_formula.

(* the hypotheses are satisfiable *)
Example C09_hyps_ok : (1 <= 3 < 10)%Z /\ (0 <= 5 < 10)%Z /\ 0 <= 3 / 2 /\ 0 <= IZR 4.
Proof. repeat split; try lia; lra. Qed.
