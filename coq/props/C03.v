(* C03 — forward and inverse transforms of one method undo each other.
   Only statements here; proofs in proofs/MxAlgebra.v.

   The definitions daun_*, basex_*, rbasex_* are GENERATED on every run from
   the current sources of /repo (tools/translate/matrix_expr.py ->
   gen/MatrixExpr.v): they are the mathcomp terms that
     daun_transform(X, reg=None, degree=d, dr, direction)       (abel/daun.py)
     basex get_bs_cached(reg=0, correction=False, dr, direction) and
       basex_core_transform                                     (abel/basex.py)
     rbasex get_bs_cached(direction, reg=None) applied as An.dot(pn)
                                                                (abel/rbasex.py)
   evaluate; scipy's inv / solve_triangular are modelled by their
   specification (base/MxNp.v).  B, (M, Mc), P are the basis matrices.
   Any field, any size n, any number of rows h, any data X. *)
From mathcomp Require Import all_ssreflect all_algebra.
From PA Require Import base.MxNp gen.MatrixExpr proofs.MxAlgebra.
Import GRing.Theory.
Local Open Scope ring_scope.

(* daun, every degree, both composition orders, every pixel size dr <> 0 *)
Theorem C03_daun_roundtrip :
  forall (F : fieldType) (n : nat) (B : 'M[F]_n), B \in unitmx ->
  forall (h : nat) (X : 'M[F]_(h, n)) (dr : F), dr != 0 ->
  (is_trig_mx B ->
   [/\ daun_inverse_deg0_none_dr B dr (daun_forward_deg0_none_dr B dr X) = X /\
       daun_forward_deg0_none_dr B dr (daun_inverse_deg0_none_dr B dr X) = X,
       daun_inverse_deg1_none_dr B dr (daun_forward_deg1_none_dr B dr X) = X /\
       daun_forward_deg1_none_dr B dr (daun_inverse_deg1_none_dr B dr X) = X &
       daun_inverse_deg2_none_dr B dr (daun_forward_deg2_none_dr B dr X) = X /\
       daun_forward_deg2_none_dr B dr (daun_inverse_deg2_none_dr B dr X) = X]) /\
  (daun_inverse_deg3_none_dr B dr (daun_forward_deg3_none_dr B dr X) = X /\
   daun_forward_deg3_none_dr B dr (daun_inverse_deg3_none_dr B dr X) = X).
Proof. exact daun_roundtrip_all. Qed.
Print Assumptions C03_daun_roundtrip.

(* the same on the dr == 1.0 code path (no scaling statement executed) *)
Theorem C03_daun_roundtrip_dr1 :
  forall (F : fieldType) (n : nat) (B : 'M[F]_n), B \in unitmx ->
  forall (h : nat) (X : 'M[F]_(h, n)),
  (is_trig_mx B ->
   [/\ daun_inverse_deg0_none_dr1 B (daun_forward_deg0_none_dr1 B X) = X /\
       daun_forward_deg0_none_dr1 B (daun_inverse_deg0_none_dr1 B X) = X,
       daun_inverse_deg1_none_dr1 B (daun_forward_deg1_none_dr1 B X) = X /\
       daun_forward_deg1_none_dr1 B (daun_inverse_deg1_none_dr1 B X) = X &
       daun_inverse_deg2_none_dr1 B (daun_forward_deg2_none_dr1 B X) = X /\
       daun_forward_deg2_none_dr1 B (daun_inverse_deg2_none_dr1 B X) = X]) /\
  (daun_inverse_deg3_none_dr1 B (daun_forward_deg3_none_dr1 B X) = X /\
   daun_forward_deg3_none_dr1 B (daun_inverse_deg3_none_dr1 B X) = X).
Proof. exact daun_roundtrip_all_dr1. Qed.
Print Assumptions C03_daun_roundtrip_dr1.

(* basex, sigma = 1 (nbf = n), reg = 0, no correction *)
Theorem C03_basex_roundtrip :
  forall (F : fieldType) (n : nat) (M Mc : 'M[F]_n), M \in unitmx -> Mc \in unitmx ->
  forall (h : nat) (X : 'M[F]_(h, n)),
  basex_core (basex_matrix_inverse_dr1 M Mc) (basex_core (basex_matrix_forward_dr1 M Mc) X) = X /\
  basex_core (basex_matrix_forward_dr1 M Mc) (basex_core (basex_matrix_inverse_dr1 M Mc) X) = X.
Proof. exact basex_roundtrip. Qed.
Print Assumptions C03_basex_roundtrip.

Theorem C03_basex_roundtrip_dr :
  forall (F : fieldType) (n : nat) (M Mc : 'M[F]_n), M \in unitmx -> Mc \in unitmx ->
  forall (h : nat) (X : 'M[F]_(h, n)) (dr : F), dr != 0 ->
  basex_core (basex_matrix_inverse_dr M Mc dr) (basex_core (basex_matrix_forward_dr M Mc dr) X) = X /\
  basex_core (basex_matrix_forward_dr M Mc dr) (basex_core (basex_matrix_inverse_dr M Mc dr) X) = X.
Proof. exact basex_roundtrip_dr. Qed.
Print Assumptions C03_basex_roundtrip_dr.

(* the transform matrices themselves are mutual inverses *)
Theorem C03_basex_matrices_inverse :
  forall (F : fieldType) (n : nat) (M Mc : 'M[F]_n), M \in unitmx -> Mc \in unitmx ->
  basex_A_forward_exact M Mc *m basex_A_inverse_exact M Mc = 1%:M /\
  basex_A_inverse_exact M Mc *m basex_A_forward_exact M Mc = 1%:M.
Proof. exact basex_A_fwd_inv. Qed.
Print Assumptions C03_basex_matrices_inverse.

(* rbasex, per angular order (P = triangular basis matrix of that order) *)
Theorem C03_rbasex_roundtrip :
  forall (F : fieldType) (Rmax : nat) (P : 'M[F]_(Rmax.+1)), is_trig_mx P -> P \in unitmx ->
  forall p : 'rV[F]_(Rmax.+1),
  rbasex_apply_inverse_none P (rbasex_apply_forward_none P p) = p /\
  rbasex_apply_forward_none P (rbasex_apply_inverse_none P p) = p.
Proof. exact rbasex_roundtrip. Qed.
Print Assumptions C03_rbasex_roundtrip.

Theorem C03_rbasex_matrices_inverse :
  forall (F : fieldType) (Rmax : nat) (P : 'M[F]_(Rmax.+1)), is_trig_mx P -> P \in unitmx ->
  rbasex_matrix_forward_none P *m rbasex_matrix_inverse_none P = 1%:M /\
  rbasex_matrix_inverse_none P *m rbasex_matrix_forward_none P = 1%:M.
Proof. exact rbasex_matrices_inverse. Qed.
Print Assumptions C03_rbasex_matrices_inverse.

(* the hypotheses hold for every triangular basis with non-zero diagonal,
   and only for those *)
Theorem C03_unit_of_triangular :
  forall (F : fieldType) (n : nat) (A : 'M[F]_n),
  is_trig_mx A -> (forall i, A i i != 0) -> A \in unitmx.
Proof. exact unit_of_triangular. Qed.
Print Assumptions C03_unit_of_triangular.

Theorem C03_triangular_unit_diag :
  forall (F : fieldType) (n : nat) (A : 'M[F]_n),
  is_trig_mx A -> A \in unitmx -> forall i, A i i != 0.
Proof. exact triangular_unit_diag. Qed.
Print Assumptions C03_triangular_unit_diag.

(* hypotheses are satisfiable: the identity matrix over the rationals *)
Example C03_hypotheses_satisfiable :
  is_trig_mx (1%:M : 'M[rat]_3) /\ ((1%:M : 'M[rat]_3) \in unitmx).
Proof. exact (conj (scalar_mx_is_trig 3 (1 : rat)) (unitmx1 _ 3)). Qed.
