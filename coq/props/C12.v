(* C12 — Centring moves exactly the requested point to the image centre.
   Only statements here; proofs are in proofs/Center*.v.
   Model: model/Center.v (abel/tools/center.py set_center, center_image).

   set_center zero one add sub mul ofQ data or0 or1 crop ax0 ax1 order
      = abel.tools.center.set_center(data, origin=(or0, or1), crop, axes, order)
        (or = None for a None component; ax0/ax1: 0 in axes / 1 in axes);
   set_center_int zero data o0 o1 crop is its whole-pixel core (o = None: the
   axis is not centred).  Pixels are of an arbitrary type A with a constant
   zero (so the statements cover integer and float images alike);
   px zero IM i j is IM[i][j].  Origins are integers (Z) or rationals (Q). *)
From Coq Require Import List Arith Bool ZArith QArith Qround Qabs Reals Lia.
From PA Require Import base.Arr base.Px model.Center proofs.CenterAxis proofs.CenterProofs
  proofs.CenterCor proofs.CenterPrep proofs.CenterImage proofs.CenterTop proofs.OriginSums proofs.CenterLin gen.CenterGen proofs.CenterGenEq gen.CenterPrepGen proofs.CenterPrepGenEq.
Import ListNotations.
Local Open Scope nat_scope.

(* With order = 0 or an integral origin (any order 0..5), set_center is the
   whole-pixel translation applied to the preprocessed origin (negative values
   wrapped, order 0: rounded half-to-even, other orders: integral as given) of
   the axes that are selected and not None (only their components need to be
   integral). *)
Theorem C12_set_center_whole_pixel :
  forall (A : Type) (zero one : A) (add sub mul : A -> A -> A) (ofQ : Q -> A)
         (data : list (list A)) (or0 or1 : option Q) (cr : crop) (ax0 ax1 : bool) (order : nat),
  order = 0 \/ (is_integral (if ax0 then or0 else None) /\ is_integral (if ax1 then or1 else None)) ->
  set_center zero one add sub mul ofQ data or0 or1 cr ax0 ax1 order =
  of_opt (set_center_int zero data (sel_origin ax0 (nrows data) order or0)
                         (sel_origin ax1 (ncols data) order or1) cr).
Proof. exact set_center_whole_pixel. Qed.
Print Assumptions C12_set_center_whole_pixel.

Theorem C12_whole_origin :
  (forall n order k, whole_origin n order (inject_Z k) = wrap n k) /\
  (forall n q, whole_origin n 0 q =
               qround_even (if Qle_bool 0 q then q else q + inject_Z (Z.of_nat n))%Q) /\
  (forall q, (Qabs (q - inject_Z (qround_even q)) <= 1 # 2)%Q).
Proof. exact (conj whole_origin_int (conj whole_origin_order0 qround_even_near)). Qed.
Print Assumptions C12_whole_origin.

(* General form: every shape, every origin inside the image, every selection of
   axes, the three crop modes: shape of the result and every pixel of it.
   shown cr n m o0 o1 data i j = data[i - len0'//2 + o0][j - len1'//2 + o1]
   inside the input frame, zero outside (an axis with o = None keeps its index). *)
Theorem C12_set_center_int_spec :
  forall (A : Type) (zero : A) (cr : crop) (n m : nat) (data : list (list A)) (o0 o1 : option Z),
  wf n m data -> 0 < n -> 0 < m -> cr <> OtherCrop -> in_axis n o0 -> in_axis m o1 ->
  exists out,
    set_center_int zero data o0 o1 cr = Some out /\
    wf (out_len cr n o0) (out_len cr m o1) out /\
    forall i j, i < out_len cr n o0 -> j < out_len cr m o1 ->
      px zero out i j = shown zero cr n m o0 o1 data i j.
Proof. exact set_center_int_spec. Qed.
Print Assumptions C12_set_center_int_spec.

(* 'maintain_size': same shape, out[i][j] = data[i - d0][j - d1] inside, zero
   outside (d = len//2 - origin); the origin pixel lands on (rows//2, cols//2). *)
Theorem C12_maintain_size_spec :
  forall (A : Type) (zero : A) (n m : nat) (data : list (list A)) (o0 o1 : Z),
  wf n m data -> 0 < n -> 0 < m -> (0 <= o0 < Z.of_nat n)%Z -> (0 <= o1 < Z.of_nat m)%Z ->
  exists out,
    set_center_int zero data (Some o0) (Some o1) MaintainSize = Some out /\
    wf n m out /\
    (forall i j, i < n -> j < m ->
       let a := (Z.of_nat i - (Z.of_nat (n / 2) - o0))%Z in
       let b := (Z.of_nat j - (Z.of_nat (m / 2) - o1))%Z in
       px zero out i j = if inside a n && inside b m then px zero data (Z.to_nat a) (Z.to_nat b) else zero) /\
    px zero out (n / 2) (m / 2) = px zero data (Z.to_nat o0) (Z.to_nat o1).
Proof. exact maintain_size_spec. Qed.
Print Assumptions C12_maintain_size_spec.

(* 'valid_region': the block of original pixels data[o-d .. o+d] per axis with
   d = min(o, len-1-o), centred on the origin pixel ... *)
Theorem C12_valid_region_spec :
  forall (A : Type) (zero : A) (n m : nat) (data : list (list A)) (o0 o1 : Z),
  wf n m data -> 0 < n -> 0 < m -> (0 <= o0 < Z.of_nat n)%Z -> (0 <= o1 < Z.of_nat m)%Z ->
  let d0 := Z.min o0 (Z.of_nat n - 1 - o0) in
  let d1 := Z.min o1 (Z.of_nat m - 1 - o1) in
  exists out,
    set_center_int zero data (Some o0) (Some o1) ValidRegion = Some out /\
    wf (Z.to_nat (2 * d0 + 1)) (Z.to_nat (2 * d1 + 1)) out /\
    (forall i j, i < Z.to_nat (2 * d0 + 1) -> j < Z.to_nat (2 * d1 + 1) ->
       px zero out i j = px zero data (Z.to_nat (o0 - d0) + i) (Z.to_nat (o1 - d1) + j)) /\
    px zero out (Z.to_nat d0) (Z.to_nat d1) = px zero data (Z.to_nat o0) (Z.to_nat o1) /\
    Z.to_nat (2 * d0 + 1) / 2 = Z.to_nat d0 /\ Z.to_nat (2 * d1 + 1) / 2 = Z.to_nat d1.
Proof. exact valid_region_spec. Qed.
Print Assumptions C12_valid_region_spec.

(* ... and it is the largest one: no block symmetric about the origin with a
   larger half-width fits into the axis. *)
Theorem C12_valid_region_maximal :
  forall (n : nat) (o d' : Z),
  (0 <= o - d')%Z -> (o + d' <= Z.of_nat n - 1)%Z ->
  (2 * d' + 1 <= Z.of_nat (crop_len ValidRegion n o))%Z.
Proof. exact valid_region_maximal. Qed.
Print Assumptions C12_valid_region_maximal.

(* 'maintain_data': every original pixel is kept at its translated position,
   every other pixel is zero, the frame is symmetric about the origin pixel. *)
Theorem C12_maintain_data_spec :
  forall (A : Type) (zero : A) (n m : nat) (data : list (list A)) (o0 o1 : Z),
  wf n m data -> 0 < n -> 0 < m -> (0 <= o0 < Z.of_nat n)%Z -> (0 <= o1 < Z.of_nat m)%Z ->
  let d0 := Z.max o0 (Z.of_nat n - 1 - o0) in
  let d1 := Z.max o1 (Z.of_nat m - 1 - o1) in
  exists out,
    set_center_int zero data (Some o0) (Some o1) MaintainData = Some out /\
    wf (Z.to_nat (2 * d0 + 1)) (Z.to_nat (2 * d1 + 1)) out /\
    (forall a b, a < n -> b < m ->
       px zero out (a + Z.to_nat (d0 - o0)) (b + Z.to_nat (d1 - o1)) = px zero data a b) /\
    (forall i j, i < Z.to_nat (2 * d0 + 1) -> j < Z.to_nat (2 * d1 + 1) ->
       negb (inside (Z.of_nat i - (d0 - o0)) n && inside (Z.of_nat j - (d1 - o1)) m) = true ->
       px zero out i j = zero) /\
    px zero out (Z.to_nat d0) (Z.to_nat d1) = px zero data (Z.to_nat o0) (Z.to_nat o1) /\
    Z.to_nat (2 * d0 + 1) / 2 = Z.to_nat d0 /\ Z.to_nat (2 * d1 + 1) / 2 = Z.to_nat d1.
Proof. exact maintain_data_spec. Qed.
Print Assumptions C12_maintain_data_spec.

(* Axes that are not selected (or whose origin component is None) are
   untouched: same length, same index along that axis. *)
Theorem C12_axes_untouched :
  forall (A : Type) (zero : A) (cr : crop) (n m : nat) (data : list (list A)),
  wf n m data -> 0 < n -> 0 < m -> cr <> OtherCrop ->
  set_center_int zero data None None cr = Some data /\
  (forall o0, (0 <= o0 < Z.of_nat n)%Z ->
     exists out,
       set_center_int zero data (Some o0) None cr = Some out /\
       wf (crop_len cr n o0) m out /\
       forall i j, i < crop_len cr n o0 -> j < m ->
         px zero out i j = match tr_idx n (crop_len cr n o0) o0 i with
                           | Some a => px zero data a j | None => zero end) /\
  (forall o1, (0 <= o1 < Z.of_nat m)%Z ->
     exists out,
       set_center_int zero data None (Some o1) cr = Some out /\
       wf n (crop_len cr m o1) out /\
       forall i j, i < n -> j < crop_len cr m o1 ->
         px zero out i j = match tr_idx m (crop_len cr m o1) o1 j with
                           | Some b => px zero data i b | None => zero end).
Proof.
  exact (fun A zero cr n m data Hwf Hn Hm Hcr =>
           conj (axes_untouched_none zero Hwf Hn Hm Hcr)
                (conj (fun o0 H => axes_untouched_axis1 zero Hwf Hn Hm Hcr H)
                      (fun o1 H => axes_untouched_axis0 zero Hwf Hn Hm Hcr H))).
Qed.
Print Assumptions C12_axes_untouched.

(* The origin coordinate given for an axis that is not in axes is ignored,
   whatever its value (fractional or not), in every crop mode and for every
   interpolation order. *)
Theorem C12_unselected_origin_ignored :
  forall (A : Type) (zero one : A) (add sub mul : A -> A -> A) (ofQ : Q -> A)
         (data : list (list A)) (or0 or1 or0' or1' : option Q) (cr : crop) (ax0 ax1 : bool) (order : nat),
  (ax0 = true -> or0 = or0') -> (ax1 = true -> or1 = or1') ->
  set_center zero one add sub mul ofQ data or0 or1 cr ax0 ax1 order =
  set_center zero one add sub mul ofQ data or0' or1' cr ax0 ax1 order.
Proof. exact unselected_origin_ignored. Qed.
Print Assumptions C12_unselected_origin_ignored.

(* Negative origins count from the end (all modes, all orders). *)
Theorem C12_negative_origin_wrap :
  forall (A : Type) (zero one : A) (add sub mul : A -> A -> A) (ofQ : Q -> A)
         (data : list (list A)) (cr : crop) (ax0 ax1 : bool) (order : nat),
  (forall k or1, (- Z.of_nat (nrows data) <= k < 0)%Z ->
     set_center zero one add sub mul ofQ data (Some (inject_Z k)) or1 cr ax0 ax1 order =
     set_center zero one add sub mul ofQ data (Some (inject_Z (k + Z.of_nat (nrows data)))) or1 cr ax0 ax1 order) /\
  (forall k or0, (- Z.of_nat (ncols data) <= k < 0)%Z ->
     set_center zero one add sub mul ofQ data or0 (Some (inject_Z k)) cr ax0 ax1 order =
     set_center zero one add sub mul ofQ data or0 (Some (inject_Z (k + Z.of_nat (ncols data)))) cr ax0 ax1 order).
Proof.
  exact (fun A zero one add sub mul ofQ data cr ax0 ax1 order =>
           conj (fun k or1 H => negative_origin_wrap0 zero one add sub mul ofQ data or1 cr ax0 ax1 order H)
                (fun k or0 H => negative_origin_wrap1 zero one add sub mul ofQ data or0 cr ax0 ax1 order H)).
Qed.
Print Assumptions C12_negative_origin_wrap.

(* Fractional origin, order = 1 (two-tap linear interpolation of the
   zero-extended image; lin2R n' m' off0 t0 off1 t1 data is the image
   out[i][j] = data(i + off0 + t0, j + off1 + t1) interpolated): total intensity
   mass2 is preserved and the first moments mom0 / mom1 move by exactly the
   requested amount, provided the content keeps a one-pixel margin inside the
   sampled window (no tolerance: exact over the reals). *)
Theorem C12_shift1_mass_centroid :
  forall (n m n' m' : nat) (data : list (list R)) (off0 off1 : Z) (t0 t1 : R),
  wf n m data ->
  (forall i j, (i < off0 + 1 \/ off0 + Z.of_nat n' <= i \/ j < off1 + 1 \/ off1 + Z.of_nat m' <= j)%Z ->
     pxzR data i j = 0%R) ->
  let out := lin2R n' m' off0 t0 off1 t1 data in
  (mass2 n' m' out = mass2 n m data /\
   mom0 n' m' out = mom0 n m data - (IZR off0 + t0) * mass2 n m data /\
   mom1 n' m' out = mom1 n m data - (IZR off1 + t1) * mass2 n m data)%R.
Proof.
  exact (fun n m n' m' data off0 off1 t0 t1 Hwf Hm =>
           conj (lin2_mass n m n' m' data off0 off1 t0 t1 Hwf Hm)
                (conj (lin2_mom0 n m n' m' data off0 off1 t0 t1 Hwf Hm)
                      (lin2_mom1 n m n' m' data off0 off1 t0 t1 Hwf Hm))).
Qed.
Print Assumptions C12_shift1_mass_centroid.

(* set_center(order=1, crop='maintain_size') with origin (i0 + s0, i1 + s1),
   0 <= s < 1: the centroid of the result is the centre pixel plus the original
   centroid-to-origin offset, exactly. *)
Theorem C12_shift1_maintain_size :
  forall (n m : nat) (data : list (list R)) (i0 i1 : Z) (s0 s1 : Q),
  wf n m data -> 0 < n -> Qfloor s0 = 0%Z -> Qfloor s1 = 0%Z ->
  (forall i j,
     (i < i0 - Z.of_nat (n / 2) + 1 \/ i0 - Z.of_nat (n / 2) + Z.of_nat n <= i \/
      j < i1 - Z.of_nat (m / 2) + 1 \/ i1 - Z.of_nat (m / 2) + Z.of_nat m <= j)%Z -> pxzR data i j = 0%R) ->
  exists out,
    set_center_linR data (Some (i0, s0)) (Some (i1, s1)) MaintainSize = Ok out /\
    (mass2 n m out = mass2 n m data /\
     mom0 n m out = mom0 n m data - (IZR i0 + Q2R s0 - IZR (Z.of_nat (n / 2))) * mass2 n m data /\
     mom1 n m out = mom1 n m data - (IZR i1 + Q2R s1 - IZR (Z.of_nat (m / 2))) * mass2 n m data)%R.
Proof. exact shift1_maintain_size. Qed.
Print Assumptions C12_shift1_maintain_size.

Theorem C12_shift1_centroid :
  forall (n m : nat) (data out : list (list R)) (i0 : Z) (s0 : Q),
  (mass2 n m data <> 0 -> mass2 n m out = mass2 n m data ->
   mom0 n m out = mom0 n m data - (IZR i0 + Q2R s0 - IZR (Z.of_nat (n / 2))) * mass2 n m data ->
   mom0 n m out / mass2 n m out - IZR (Z.of_nat (n / 2)) = mom0 n m data / mass2 n m data - (IZR i0 + Q2R s0))%R.
Proof. exact shift1_centroid. Qed.
Print Assumptions C12_shift1_centroid.

(* center_image(method='image_center', crop='maintain_size'): odd_size gives an
   odd width for every input shape, every square flag, axes and order. *)
Theorem C12_center_image_odd :
  forall (A : Type) (zero one : A) (add sub mul : A -> A -> A) (ofQ : Q -> A)
         (square : bool) (n m : nat) (IM : list (list A)) (ax0 ax1 : bool) (order : nat),
  wf n m IM -> 0 < n -> 0 < m ->
  exists out n' m',
    center_image zero one add sub mul ofQ IM None true square ax0 ax1 MaintainSize order = Ok out /\
    wf n' m' out /\ m' mod 2 = 1.
Proof. exact center_image_odd. Qed.
Print Assumptions C12_center_image_odd.

(* square: a square image for every input shape (every parity and aspect) and
   both values of odd_size; odd as well when odd_size is set. *)
Theorem C12_center_image_square :
  forall (A : Type) (zero one : A) (add sub mul : A -> A -> A) (ofQ : Q -> A)
         (odd_size : bool) (n m : nat) (IM : list (list A)) (ax0 ax1 : bool) (order : nat),
  wf n m IM -> 0 < n -> 0 < m ->
  exists out n',
    center_image zero one add sub mul ofQ IM None odd_size true ax0 ax1 MaintainSize order = Ok out /\
    wf n' n' out /\ 0 < n' /\ (odd_size = true -> n' mod 2 = 1).
Proof. exact center_image_square. Qed.
Print Assumptions C12_center_image_square.

(* the two shapes on which the code before commit 8e8ce4b returned (4, 0) and (3, 4) *)
Example C12_center_image_square_examples :
  ci_trim false true (repeat [1; 2; 3; 4; 5] 4) = repeat [1; 2; 3; 4] 4 /\
  ci_trim false true (repeat [1; 2; 3; 4; 5; 6] 3) = repeat [2; 3; 4] 3.
Proof. exact ci_trim_fixed_examples. Qed.

(* The trimming model ci_trim the center_image theorems are about is the
   function the current source defines: gen/CenterGen.v is regenerated from the
   statements of center_image (abel/tools/center.py) by
   tools/translate/center_src.py on every run (fail closed). *)
Theorem C12_trim_model_is_source :
  forall (A : Type) (odd_size square : bool) (IM : list (list A)),
  ci_trim_gen A odd_size square IM = ci_trim odd_size square IM.
Proof. exact ci_trim_gen_eq. Qed.
Print Assumptions C12_trim_model_is_source.

(* The origin preprocessing prep_axis of the model is what the current source
   does to one origin component (the else-branch of `for a in [0, 1]:` in
   set_center: negative wrap, int() / int(round()) split, complement from the
   other edge), regenerated by tools/translate/center_prep_src.py on every run;
   the statements around it (axes as a set, None / not-selected test,
   `np.all(subpixel == 0)` reset) are pinned by the translator. *)
Theorem C12_prep_model_is_source :
  forall (n order : nat) (o : Q),
  prep_axis_gen n order o =
  (fst (prep_axis n order o), snd (prep_axis n order o), (Z.of_nat n - 1 - fst (prep_axis n order o))%Z).
Proof. exact prep_axis_gen_eq. Qed.
Print Assumptions C12_prep_model_is_source.

Theorem C12_trim_shape :
  forall (A : Type) (odd_size square : bool) (n m : nat) (IM : list (list A)),
  wf n m IM -> 0 < n ->
  wf (fst (ci_shape odd_size square n m)) (snd (ci_shape odd_size square n m)) (ci_trim odd_size square IM).
Proof. exact ci_trim_wf. Qed.
Print Assumptions C12_trim_shape.

Example C12_hypotheses_satisfiable :
  wf 2 3 [[1; 2; 3]; [4; 5; 6]] /\ in_axis 2 (Some 1%Z) /\ in_axis 3 None /\
  set_center_int 0 [[1; 2; 3]; [4; 5; 6]] (Some 0%Z) (Some 2%Z) MaintainSize = Some [[0; 0; 0]; [2; 3; 0]].
Proof. exact c12_example. Qed.
