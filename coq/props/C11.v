(* C11 — Shipped analytical pairs and sample images are true Abel pairs.
   Only statements here.  The closed forms are translated from the source on
   every run (tools/translate/formulas_pairs.py -> gen/FormulasPairs.v):
     profK_source / profK_proj     transform_pairs.profile1..7 (masks -> Rle_dec guards)
     step_func / step_abel         analytical.StepAnalytical
     gauss_func / gauss_abel       analytical.GaussianAnalytical
   Abel f Rm x = 2 * RInt (fun y => f (sqrt (x*x+y*y))) 0 (sqrt (Rm*Rm - x*x))
   (model/AbelPoly.v).  Grids: model/Pairs.v.  Proofs: proofs/PairsClosed.v,
   PairsProfile4.v, PairsStepGauss.v, PairsGrid.v (on top of the C10 theorems). *)
From Coq Require Import Reals List Arith Bool ZArith QArith Qreals Lia Lra.
From Coquelicot Require Import Coquelicot.
From PA Require Import model.Poly model.AbelPoly model.Pairs
  proofs.AbelPolyAlg proofs.AbelPolyInt proofs.PolyTop proofs.PolyPiecewise
  proofs.PairsClosed proofs.PairsProfile4 proofs.PairsStepGauss proofs.PairsGrid
  gen.FormulasPairs.
Import ListNotations.
Open Scope R_scope.

(* StepAnalytical: abel is the Abel transform of A0 1_(r1,r2) at every r >= 0 *)
Theorem C11_step_pair : forall A0 r1 r2 Rm x, 0 <= x -> 0 <= r1 <= r2 -> r2 <= Rm ->
  step_abel A0 r1 r2 x = Abel (step_func A0 r1 r2) Rm x.
Proof. exact step_pair. Qed.
Print Assumptions C11_step_pair.

(* Chan-Hieftje profiles: the code's projection is the Abel projection of the
   code's source for every r in (0,1) *)
Theorem C11_profile1_pair : forall x, 0 < x < 1 -> prof1_proj x = Abel prof1_source 1 x.
Proof. exact profile1_pair. Qed.
Print Assumptions C11_profile1_pair.
Theorem C11_profile2_pair : forall x, 0 < x < 1 -> prof2_proj x = Abel prof2_source 1 x.
Proof. exact profile2_pair. Qed.
Print Assumptions C11_profile2_pair.
Theorem C11_profile3_pair : forall x, 0 < x < 1 -> prof3_proj x = Abel prof3_source 1 x.
Proof. exact profile3_pair. Qed.
Print Assumptions C11_profile3_pair.
Theorem C11_profile5_pair : forall x, 0 <= x < 1 -> prof5_proj x = Abel prof5_source 1 x.
Proof. exact profile5_pair. Qed.
Print Assumptions C11_profile5_pair.
Theorem C11_profile7_pair : forall x, 0 <= x < 1 -> prof7_proj x = Abel prof7_source 1 x.
Proof. exact profile7_pair. Qed.
Print Assumptions C11_profile7_pair.

(* profile 4: the published constants -14.811667 and -196.30083 are rounded
   values of -14.8116666... and -196.3008333...; the deviation in closed form,
   its bound (1.2e-6 absolute, the projection being O(1)), and "exactly" refuted
   (finding C11:profile4-rounded-constants) *)
Theorem C11_profile4_deviation : forall x, 0 < x < 1 ->
  prof4_proj x - Abel prof4_source 1 x = sqrt (1 * 1 - x * x) * (10 * x ^ 2 - 1) / 3000000.
Proof. exact profile4_deviation. Qed.
Print Assumptions C11_profile4_deviation.
Theorem C11_profile4_pair_tol : forall x, 0 < x < 1 ->
  Rabs (prof4_proj x - Abel prof4_source 1 x) <= 12 / 10000000.
Proof. exact profile4_pair_tol. Qed.
Print Assumptions C11_profile4_pair_tol.
Theorem C11_profile4_exact_refuted : exists x, 0 < x < 1 /\
  Rabs (prof4_proj x - Abel prof4_source 1 x) > 1 / 1000000.
Proof. exact profile4_exact_refuted. Qed.
Print Assumptions C11_profile4_exact_refuted.

(* profile 6 (not a polynomial): instances in proofs/C11Instances.v *)

(* GaussianAnalytical: abel/func is the constant sigma sqrt(pi); the Gaussian
   factorises along the line of sight (the enclosure of the Gaussian integral is
   in proofs/C11Instances.v; its identity with sqrt(pi) is trusted) *)
Theorem C11_gaussian_pair_partial : forall A0 sigma Rm x r, sigma <> 0 ->
  gauss_abel A0 sigma r = sigma * sqrt PI * gauss_func A0 sigma r /\
  Abel (gauss_func A0 sigma) Rm x =
    gauss_func A0 sigma x * (2 * RInt (fun y => exp (- y ^ 2 / sigma ^ 2)) 0 (sqrt (Rm * Rm - x * x))).
Proof. intros; split; [apply gaussian_ratio | apply gaussian_pair_partial; auto]. Qed.
Print Assumptions C11_gaussian_pair_partial.

(* r grid, dr, symmetric layout (odd and even n), mirrored halves, masks *)
Theorem C11_grid_consistency :
  (forall a b n i, lin_at a b n (S i) - lin_at a b n i = (b - a) / INR (n - 1)) /\
  (forall a b n, (2 <= n)%nat -> lin_at a b n 0 = a /\ lin_at a b n (n - 1) = b) /\
  (forall rm n i, (2 <= n)%nat -> (i <= n - 1)%nat -> lin_at (- rm) rm n i = - lin_at (- rm) rm n (n - 1 - i)) /\
  (forall rm m, (1 <= m)%nat -> lin_at (- rm) rm (2 * m + 1) m = 0) /\
  (forall rm m, (1 <= m)%nat ->
     lin_at (- rm) rm (2 * m) m = (rm - - rm) / INR (2 * m - 1) / 2 /\
     lin_at (- rm) rm (2 * m) (m - 1) = - ((rm - - rm) / INR (2 * m - 1)) / 2).
Proof.
  repeat split; [apply grid_uniform | apply grid_ends; auto | apply grid_ends; auto | apply grid_symmetric
                | apply grid_centre_odd | apply grid_centre_even; auto | apply grid_centre_even; auto].
Qed.
Print Assumptions C11_grid_consistency.

Theorem C11_mirror_layout : forall (A : Type) (f : list A) (d : A) (r : list A) n i,
  (f <> [] -> (i < 2 * length f - 1)%nat ->
   nth i (mirror f) d = nth (if (i <? length f - 1)%nat then length f - 1 - i else i - (length f - 1))%nat f d) /\
  (length r = n -> (2 <= n)%nat ->
   length (mirror (upper_half r n)) = if Nat.odd n then n else (n - 1)%nat).
Proof. intros; split; [apply mirror_nth | apply wrapper_length]. Qed.
Print Assumptions C11_mirror_layout.

Theorem C11_masks_symmetric : forall ratio r1 r2 half sigma r,
  step_mask R 0 Rplus Rmult Rminus Ropp Rltb ratio r1 r2 half (- r) =
  step_mask R 0 Rplus Rmult Rminus Ropp Rltb ratio r1 r2 half r /\
  gauss_mask R 0 Rmult Ropp Rltb ratio sigma (- r) = gauss_mask R 0 Rmult Ropp Rltb ratio sigma r.
Proof. exact masks_symmetric. Qed.
Print Assumptions C11_masks_symmetric.

Example C11_ex_step : 0 <= 1/2 /\ 0 <= 1 <= 2 /\ 2 <= 5.
Proof. lra. Qed.
