(* C01 — Inverse transforms recover the true source of a smooth projection.

   WHAT IS PROVED HERE: the ground truth of the accuracy sweep is certified.
   The pairs (source, projection) that tools/oracle/pairs.py hands to the ten
   inverse methods are true Abel pairs:
     - bumps (1 - r^2/R^2)^p: for EVERY p, R > 0, 0 <= x < R (C01_abel_bump,
       and the instances p = 2, 3, 4 with their rational constants);
     - Gaussians exp(-r^2/s^2): exact factorisation of the finite-range line
       integral (C01_abel_gauss_shape, _scaled), a machine-checked enclosure
       of 2*int_0^7 exp(-t^2) (C01_G_enclosure, Interval), a tail bound, and
       C01_abel_gauss_oracle: the closed form s*sqrt(PI)*exp(-x^2/s^2) used by
       the sweep is within 2^-39 (relative) of the finite-range line integral
       whenever the half chord is at least 7 s.
   WHAT IS NOT PROVED: (a) int_0^infinity exp(-t^2) dt = sqrt(PI)/2 (the sweep
   feeds the infinite-range Gaussian; trusted); (b) the clauses about the ten
   numerical schemes themselves.  C01_envelope_statement and
   C01_refinement_statement below are Definitions, not theorems: they are
   decided by the numeric sweep of tools/oracle/runner.py against the oracles
   above ("swept, not proved"; DESIGN §3 C01, §6).

   Model: model/AbelPairs.v (Abel f Rm x = 2 * RInt (fun y => f (sqrt (x^2+y^2)))
   0 (sqrt (Rm^2-x^2)), the proper line-of-sight form). *)
From Coq Require Import Reals List Lra.
From Coquelicot Require Import Coquelicot.
From Interval Require Import Tactic.
From PA Require Import model.AbelPairs proofs.AbelPairs proofs.AbelPairsGauss proofs.AbelPairsStmt.
Open Scope R_scope.

Theorem C01_abel_bump : forall (R0 x : R), 0 < R0 -> 0 <= x < R0 -> forall p : nat,
  Abel (bump R0 p) R0 x = 2 * wallis p * R0 * (1 - x^2 / R0^2) ^ p * sqrt (1 - x^2 / R0^2).
Proof. exact abel_bump_gen. Qed.
Print Assumptions C01_abel_bump.

Theorem C01_abel_bump_2 : forall R0 x, 0 < R0 -> 0 <= x < R0 ->
  Abel (bump R0 2) R0 x = 16 / 15 * R0 * (1 - x^2/R0^2)^2 * sqrt (1 - x^2/R0^2).
Proof. exact abel_bump_2. Qed.
Print Assumptions C01_abel_bump_2.

Theorem C01_abel_bump_3 : forall R0 x, 0 < R0 -> 0 <= x < R0 ->
  Abel (bump R0 3) R0 x = 32 / 35 * R0 * (1 - x^2/R0^2)^3 * sqrt (1 - x^2/R0^2).
Proof. exact abel_bump_3. Qed.
Print Assumptions C01_abel_bump_3.

Theorem C01_abel_bump_4 : forall R0 x, 0 < R0 -> 0 <= x < R0 ->
  Abel (bump R0 4) R0 x = 256 / 315 * R0 * (1 - x^2/R0^2)^4 * sqrt (1 - x^2/R0^2).
Proof. exact abel_bump_4. Qed.
Print Assumptions C01_abel_bump_4.

(* the closed form evaluated by the sweep is the right-hand side above *)
Theorem C01_bump_proj_is_abel : forall R0 x p, 0 < R0 -> 0 <= x < R0 ->
  Abel (bump R0 p) R0 x = bump_proj R0 p x.
Proof. exact abel_bump_proj. Qed.
Print Assumptions C01_bump_proj_is_abel.

Example C01_bump_hypotheses_satisfiable : 0 < 40 /\ 0 <= 7 < 40.
Proof. split; [|split]; lra. Qed.

Theorem C01_abel_gauss_shape : forall s Rm x, s <> 0 ->
  Abel (gauss s) Rm x =
  exp (- x^2 / s^2) * (2 * RInt (fun y => exp (- (y^2) / s^2)) 0 (sqrt (Rm*Rm - x*x))).
Proof. exact abel_gauss_shape. Qed.
Print Assumptions C01_abel_gauss_shape.

Theorem C01_abel_gauss_scaled : forall s Rm x, 0 < s ->
  Abel (gauss s) Rm x =
  s * exp (- x^2 / s^2) * (2 * RInt (fun t => exp (- t^2)) 0 (sqrt (Rm*Rm - x*x) / s)).
Proof. exact abel_gauss_scaled. Qed.
Print Assumptions C01_abel_gauss_scaled.

Theorem C01_G_enclosure : Rabs (2 * RInt (fun t => exp (- t^2)) 0 7 - sqrt PI) <= / 2^40.
Proof. exact G_enclosure. Qed.
Print Assumptions C01_G_enclosure.

Theorem C01_gauss_tail : forall T, 7 <= T ->
  0 <= RInt (fun t => exp (- t^2)) 7 T <= exp (-49) / 7.
Proof. exact gauss_tail. Qed.
Print Assumptions C01_gauss_tail.

Theorem C01_abel_gauss_oracle : forall s Rm x, 0 < s -> 7 * s <= sqrt (Rm*Rm - x*x) ->
  Rabs (Abel (gauss s) Rm x - gauss_proj s x) <= s * exp (- x^2 / s^2) / 2^39.
Proof. exact abel_gauss_oracle. Qed.
Print Assumptions C01_abel_gauss_oracle.

Example C01_gauss_hypotheses_satisfiable : 0 < 6 /\ 7 * 6 <= sqrt (50*50 - 10*10).
Proof. split; [lra|]. interval. Qed.

(* ---- swept, not proved ------------------------------------------------ *)
(* The full envelope clause for one inverse method T and one law (K, q):
   "applied to the exact projection of a member of the family, sampled with
   at least 6 px per width, T returns the source within K*(dr/s)^q of the peak
   at every judged pixel".  The check evaluates this on the implementation
   with K, q from tools/oracle/envelopes.json (times 1.5); no theorem. *)
Definition C01_envelope_statement := envelope_inverse.
(* "the error does not grow when the same distribution is sampled k times
   finer" — likewise swept. *)
Definition C01_refinement_statement := refinement_inverse.
Definition C01_dr_statement := dr_scale_inverse.

(* ---- exact on its own span (builder "basis"; proofs/ExactOnSpan.v on top of the
   C09 entry theorems) ------------------------------------------------------
   This part of "recovers the true source" is true exactly and for all inputs:
   if the data row is the exact Abel projection (the `Abel` above; model.Abel.Abel
   is the same term) of a function of the span of the method's own basis —
   span_daun<d> c n r = sum_{j<n} c_j * basis_j(r), basis_j = rect / tri / quad2
   centred at pixel j (piecewise constant / linear / quadratic) — and X is a left
   inverse of the generated matrix of abel/daun.py (daun_p<d> j i, regenerated from
   the source on every run: gen/FormulasBasis.v), then applying X to the data
   returns the coefficients c exactly, for every size n and every c.
   sumn n F = F 0 + ... + F (n-1);  zc j = IZR (Z.of_nat j);  delta = Kronecker.
   (The existence of X — triangular matrix with non-zero diagonal — and the float
   solve are C03's business; the hypothesis is shown satisfiable below.) *)
From Coq Require Import ZArith.
From PA Require Import gen.FormulasBasis proofs.ExactOnSpan.

Theorem C01_exact_on_span_daun0 : forall (n : nat) (c : nat -> R) (X : nat -> nat -> R),
  (forall j k, (j < n)%nat -> (k < n)%nat ->
     sumn n (fun i => daun_p0 (Z.of_nat j) (Z.of_nat i) * X i k) = delta j k) ->
  forall k, (k < n)%nat ->
    sumn n (fun i => Abel (span_daun0 c n) (zc n) (zc i) * X i k) = c k.
Proof. exact exact_on_span_daun0. Qed.
Print Assumptions C01_exact_on_span_daun0.

Theorem C01_exact_on_span_daun1 : forall (n : nat) (c : nat -> R) (X : nat -> nat -> R),
  (forall j k, (j < n)%nat -> (k < n)%nat ->
     sumn n (fun i => daun_p1 (Z.of_nat j) (Z.of_nat i) * X i k) = delta j k) ->
  forall k, (k < n)%nat ->
    sumn n (fun i => Abel (span_daun1 c n) (zc n) (zc i) * X i k) = c k.
Proof. exact exact_on_span_daun1. Qed.
Print Assumptions C01_exact_on_span_daun1.

Theorem C01_exact_on_span_daun2 : forall (n : nat) (c : nat -> R) (X : nat -> nat -> R),
  (forall j k, (j < n)%nat -> (k < n)%nat ->
     sumn n (fun i => daun_p2 (Z.of_nat j) (Z.of_nat i) * X i k) = delta j k) ->
  forall k, (k < n)%nat ->
    sumn n (fun i => Abel (span_daun2 c n) (zc n) (zc i) * X i k) = c k.
Proof. exact exact_on_span_daun2. Qed.
Print Assumptions C01_exact_on_span_daun2.

(* Dasch onion peeling: D = inv(W) (abel/dasch.py), result_k = sum_i D[k][i] data_i,
   W = generated onion_W = transposed degree-0 matrix (C09_onion_W_eq_daun0). *)
Theorem C01_exact_on_span_onion_peeling : forall (n : nat) (c : nat -> R) (D : nat -> nat -> R),
  (forall k j, (k < n)%nat -> (j < n)%nat ->
     sumn n (fun i => D k i * onion_W (Z.of_nat n) (Z.of_nat i) (Z.of_nat j)) = delta j k) ->
  forall k, (k < n)%nat ->
    sumn n (fun i => D k i * Abel (span_daun0 c n) (zc n) (zc i)) = c k.
Proof. exact exact_on_span_onion_peeling. Qed.
Print Assumptions C01_exact_on_span_onion_peeling.

Example C01_exact_on_span_hypothesis_satisfiable :
  exists X : nat -> nat -> R, forall j k, (j < 1)%nat -> (k < 1)%nat ->
    sumn 1 (fun i => daun_p0 (Z.of_nat j) (Z.of_nat i) * X i k) = delta j k.
Proof. exact left_inverse_exists_n1. Qed.

(* ---- stretch 2: inverse error bound, conditional on the size of the inverse
   (proofs/Convergence.v) --------------------------------------------------------
   For every n, every L-Lipschitz profile f vanishing beyond the last cell and
   every left inverse X of the degree-0 matrix (resp. D = inv(W) of onion
   peeling): the reconstruction from the EXACT projection of f misses the samples
   f(k) by at most  L * n * (1-norm of the column of X / row of D)  in pixel units.
   `_partial`: the bound is a stability estimate, it does not by itself give
   convergence (the growth of that norm with n is the ill-posedness of the Abel
   inversion and is not bounded here); the envelope of the inverse methods stays
   swept.  lipschitz_nonneg f L : |f r - f s| <= L |r - s| for r, s >= 0. *)
From PA Require Import proofs.Convergence.

Theorem C01_inverse_daun0_error_partial : forall (n : nat) (f : R -> R) (L : R) (X : nat -> nat -> R),
  0 <= L -> lipschitz_nonneg f L -> (forall s, zc n - 1 / 2 <= s -> f s = 0) ->
  (forall j k, (j < n)%nat -> (k < n)%nat ->
     sumn n (fun i => daun_p0 (Z.of_nat j) (Z.of_nat i) * X i k) = delta j k) ->
  forall k, (k < n)%nat ->
    Rabs (sumn n (fun i => Abel f (zc n) (zc i) * X i k) - f (zc k))
      <= L * zc n * sumn n (fun i => Rabs (X i k)).
Proof. exact inverse_daun0_error_partial. Qed.
Print Assumptions C01_inverse_daun0_error_partial.

Theorem C01_inverse_onion_peeling_error_partial : forall (n : nat) (f : R -> R) (L : R) (D : nat -> nat -> R),
  0 <= L -> lipschitz_nonneg f L -> (forall s, zc n - 1 / 2 <= s -> f s = 0) ->
  (forall k j, (k < n)%nat -> (j < n)%nat ->
     sumn n (fun i => D k i * onion_W (Z.of_nat n) (Z.of_nat i) (Z.of_nat j)) = delta j k) ->
  forall k, (k < n)%nat ->
    Rabs (sumn n (fun i => D k i * Abel f (zc n) (zc i)) - f (zc k))
      <= L * zc n * sumn n (fun i => Rabs (D k i)).
Proof. exact inverse_onion_peeling_error_partial. Qed.
Print Assumptions C01_inverse_onion_peeling_error_partial.

Example C01_lipschitz_hypotheses_satisfiable :
  lipschitz_nonneg tent 1 /\ (forall s, zc 2 - 1 / 2 <= s -> tent s = 0).
Proof. exact (conj tent_lipschitz tent_support). Qed.
