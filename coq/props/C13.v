(* C13 — Origin finders return the true centre of symmetric images and follow
   shifts.  Only statements here; proofs are in proofs/Origin*.v.
   Model: model/Origin.v (abel/tools/center.py find_origin with the methods
   image_center / com / convolution), instantiated over R:
     find_originR meth IM ax0 ax1 = find_origin(IM, method, axes)
       (ax0 / ax1: 0 in axes / 1 in axes), a pair (row, column) of reals;
     pxz IM i j   pixel of the zero-extended image, i j : Z;
     psym IM s0 s1        IM is point-symmetric about (s0/2, s1/2), i.e. about a
                          pixel centre (s even) or a pixel edge (s odd);
     translated IM IM' a b   IM'[i][j] = IM[i-a][j-b] (zero-extended: the
                          content keeps inside the frame, empty margins);
     scaled c IM          c * IM;   total IM = sum of all pixels;
     Cz p k = sum_i p[i] p[k-i]   the autoconvolution of the profile p at k.
   The Gaussian-fit method (scipy curve_fit) is outside the model: swept. *)
From Coq Require Import List Arith Bool ZArith Reals.
From PA Require Import base.Arr model.Origin proofs.OriginSums proofs.OriginProofs proofs.OriginConv
  proofs.OriginImage proofs.OriginTop proofs.OriginShift proofs.OriginRound.
Import ListNotations.
Local Open Scope R_scope.

(* Centre of mass of an image that is point-symmetric about a point c of the
   half-pixel grid (total intensity non-zero) is c — every shape and parity. *)
Theorem C13_com_symmetric :
  forall (n m : nat) (IM : list (list R)), wf n m IM -> (0 < n)%nat ->
  forall s0 s1 : Z, psym IM s0 s1 -> total IM <> 0 ->
  find_originR Com IM true true = (IZR s0 / 2, IZR s1 / 2).
Proof. exact com_symmetric. Qed.
Print Assumptions C13_com_symmetric.

(* The autoconvolution of each projection of such an image is maximal at 2c
   (2ab <= a^2 + b^2) ... *)
Theorem C13_conv_max_at_centre :
  forall (n m : nat) (IM : list (list R)), wf n m IM -> (0 < n)%nat ->
  forall s0 s1 : Z, psym IM s0 s1 ->
  (forall k, Cz (proj0R IM) k <= Cz (proj0R IM) s0) /\ (forall k, Cz (proj1R IM) k <= Cz (proj1R IM) s1).
Proof. exact conv_max_at_centre_img. Qed.
Print Assumptions C13_conv_max_at_centre.

(* ... a second maximum would make the profile periodic, hence zero ... *)
Theorem C13_conv_max_unique :
  forall (p : list R) (s : Z), sym1 p s ->
  forall k : Z, k <> s -> Cz p k = Cz p s -> forall i, pz p i = 0.
Proof. exact conv_max_unique. Qed.
Print Assumptions C13_conv_max_unique.

(* ... so the first argmax is 2c and the convolution method returns exactly c,
   on its half-pixel grid. *)
Theorem C13_conv_symmetric :
  forall (n m : nat) (IM : list (list R)), wf n m IM -> (0 < n)%nat ->
  forall s0 s1 : Z, psym IM s0 s1 -> total IM <> 0 ->
  find_originR Convolution IM true true = (IZR s0 / 2, IZR s1 / 2).
Proof. exact conv_symmetric. Qed.
Print Assumptions C13_conv_symmetric.

(* Translating the content by whole pixels moves the centre of mass by the
   same amount (any image with non-zero total) ... *)
Theorem C13_com_shift :
  forall (n m : nat) (IM : list (list R)), wf n m IM -> (0 < n)%nat ->
  forall (IM' : list (list R)) (a b : Z), wf n m IM' -> translated IM IM' a b -> total IM <> 0 ->
  find_originR Com IM' true true =
  (fst (find_originR Com IM true true) + IZR a, snd (find_originR Com IM true true) + IZR b).
Proof. exact com_shift. Qed.
Print Assumptions C13_com_shift.

(* ... and so does the origin reported by the convolution method, for ANY image
   (no symmetry needed) whose two projections are not identically zero: the
   autoconvolution of the translated projection is the autoconvolution
   translated by 2a (zero outside) and the first argmax follows it.  The side
   condition is needed: for a zero projection every translation relation holds
   and the argmax stays at index 0.  (translated already says that the content
   stays inside the frame.)  A non-zero total intensity implies it. *)
Theorem C13_conv_shift :
  forall (n m : nat) (IM IM' : list (list R)) (a b : Z),
  wf n m IM -> wf n m IM' -> (0 < n)%nat -> translated IM IM' a b ->
  (exists i, pz (proj0R IM) i <> 0) -> (exists j, pz (proj1R IM) j <> 0) ->
  find_originR Convolution IM' true true =
  (fst (find_originR Convolution IM true true) + IZR a, snd (find_originR Convolution IM true true) + IZR b).
Proof. exact conv_shift. Qed.
Print Assumptions C13_conv_shift.

Theorem C13_total_projections :
  forall (n m : nat) (IM : list (list R)), wf n m IM -> (0 < n)%nat -> total IM <> 0 ->
  (exists i, pz (proj0R IM) i <> 0) /\ (exists j, pz (proj1R IM) j <> 0).
Proof. exact total_projections. Qed.
Print Assumptions C13_total_projections.

(* one axis: any profile that is not identically zero *)
Theorem C13_conv_shift_1d :
  forall (p p' : list R) (a : Z),
  length p' = length p -> (forall k, pz p' k = pz p (k - a)) -> (exists i, pz p i <> 0) ->
  conv_axisR p' = conv_axisR p + IZR a.
Proof. exact conv_shift_1d. Qed.
Print Assumptions C13_conv_shift_1d.

(* Multiplying the image by a (positive, indeed any non-zero) constant does not
   move the reported origin. *)
Theorem C13_com_scale :
  forall (n m : nat) (IM : list (list R)), wf n m IM -> (0 < n)%nat ->
  forall c : R, c <> 0 -> total IM <> 0 ->
  find_originR Com (scaled c IM) true true = find_originR Com IM true true.
Proof. exact com_scale. Qed.
Print Assumptions C13_com_scale.

Theorem C13_conv_scale :
  forall (n m : nat) (IM : list (list R)), wf n m IM -> forall c : R, c <> 0 ->
  find_originR Convolution (scaled c IM) true true = find_originR Convolution IM true true.
Proof. exact conv_scale. Qed.
Print Assumptions C13_conv_scale.

(* image_center always reports (rows//2, cols//2); the coordinate of an axis
   that is not requested is the image centre, for every method; a requested
   coordinate does not depend on the other axis being requested. *)
Theorem C13_image_center_spec :
  forall (IM : list (list R)) (ax0 ax1 : bool),
  find_originR ImageCenter IM ax0 ax1 = (INR (nrows IM / 2), INR (ncols IM / 2)).
Proof. exact image_center_spec. Qed.
Print Assumptions C13_image_center_spec.

Theorem C13_axes_default_centre :
  forall (meth : method) (IM : list (list R)) (ax0 ax1 : bool),
  (ax0 = false -> fst (find_originR meth IM ax0 ax1) = INR (nrows IM / 2)) /\
  (ax1 = false -> snd (find_originR meth IM ax0 ax1) = INR (ncols IM / 2)).
Proof. exact axes_default_centre. Qed.
Print Assumptions C13_axes_default_centre.

Theorem C13_axes_independent :
  forall (meth : method) (IM : list (list R)) (ax : bool),
  fst (find_originR meth IM true ax) = fst (find_originR meth IM true true) /\
  snd (find_originR meth IM ax true) = snd (find_originR meth IM true true).
Proof. exact axes_independent. Qed.
Print Assumptions C13_axes_independent.

(* Option round_output (find_origin_optR meth IM ax0 ax1 round_output; Rround is
   Python's round(): nearest integer, ties to even): the result is within 1/2
   of the centre of mass and integral; off (default) or with another method it
   changes nothing; an image symmetric about a pixel centre gives exactly that
   pixel; a coordinate that is not requested stays the image centre. *)
Theorem C13_round_nearest :
  (forall x, Rabs (Rround x - x) <= 1 / 2) /\ (forall x, exists k : Z, Rround x = IZR k) /\
  (forall k, Rround (IZR k) = IZR k).
Proof. exact (conj Rround_near (conj Rround_is_int Rround_int)). Qed.
Print Assumptions C13_round_nearest.

Theorem C13_round_output_com :
  forall (IM : list (list R)) (ax0 ax1 : bool),
  let o := find_originR Com IM ax0 ax1 in
  let q := find_origin_optR Com IM ax0 ax1 true in
  Rabs (fst q - fst o) <= 1 / 2 /\ Rabs (snd q - snd o) <= 1 / 2 /\
  (exists k : Z, fst q = IZR k) /\ (exists k : Z, snd q = IZR k).
Proof. exact com_round_near. Qed.
Print Assumptions C13_round_output_com.

Theorem C13_round_output_off_or_ignored :
  forall (meth : method) (IM : list (list R)) (ax0 ax1 : bool),
  find_origin_optR meth IM ax0 ax1 false = find_originR meth IM ax0 ax1 /\
  (forall r, meth <> Com -> find_origin_optR meth IM ax0 ax1 r = find_originR meth IM ax0 ax1).
Proof.
  exact (fun meth IM ax0 ax1 => conj (round_output_off meth IM ax0 ax1)
                                     (fun r H => round_output_ignored meth IM ax0 ax1 r H)).
Qed.
Print Assumptions C13_round_output_off_or_ignored.

Theorem C13_round_output_symmetric :
  forall (n m : nat) (IM : list (list R)) (k0 k1 : Z),
  wf n m IM -> (0 < n)%nat -> psym IM (2 * k0) (2 * k1) -> total IM <> 0 ->
  find_origin_optR Com IM true true true = (IZR k0, IZR k1).
Proof. exact com_round_symmetric. Qed.
Print Assumptions C13_round_output_symmetric.

Theorem C13_round_output_default_centre :
  forall (IM : list (list R)) (ax0 ax1 : bool),
  (ax0 = false -> fst (find_origin_optR Com IM ax0 ax1 true) = INR (nrows IM / 2)) /\
  (ax1 = false -> snd (find_origin_optR Com IM ax0 ax1 true) = INR (ncols IM / 2)).
Proof. exact com_round_default_centre. Qed.
Print Assumptions C13_round_output_default_centre.

(* one-dimensional forms (profiles), used above *)
Theorem C13_profile_1d :
  forall (p : list R) (s : Z), sym1 p s -> sumR p <> 0 ->
  com_axisR p = IZR s / 2 /\ conv_axisR p = IZR s / 2.
Proof.
  exact (fun p s H Hs => conj (com_symmetric_1d p s H Hs)
                              (conv_symmetric_1d p s H (nonzero_sum_witness p Hs))).
Qed.
Print Assumptions C13_profile_1d.

Example C13_hypotheses_satisfiable :
  let IM := [[1; 2; 3]; [3; 2; 1]] in wf 2 3 IM /\ psym IM 1 2 /\ total IM <> 0.
Proof. exact c13_example. Qed.
